#!/usr/bin/env python3
"""Generates the hand-written mutant patches in selftest/mutants/ (mNN-*.patch)
from (file, old, new) edits applied to a scratch worktree of /repo HEAD, and
appends them to catalogue.tsv.  Usage: make_mutants.py <scratch worktree>"""
import os, subprocess, sys

W = sys.argv[1]
HERE = os.path.dirname(os.path.abspath(__file__))

M = []
def m(name, expected, desc, *edits):
    M.append((name, expected, desc, edits))

# ---- C01
m("m01-gostring-before-string", "C01", "type switch tests GoStringer before Stringer",
  ("cell.go", "\tcase Stringer:\n\t\tc.str = o.String()\n\tcase GoStringer:\n\t\tc.str = o.GoString()\n",
              "\tcase GoStringer:\n\t\tc.str = o.GoString()\n\tcase Stringer:\n\t\tc.str = o.String()\n"))
m("m02-empty-from-raw-nil-only", "C01", "Empty() true only for a nil item",
  ("cell.go", "\treturn c.empty\n}", "\treturn c.raw == nil\n}"))
m("m03-string-reads-item-again", "C01", "String() re-reads a Stringer item on every call (no snapshot)",
  ("cell.go", "\tif c.mustCalc {\n\t\t(&c).updateCache()\n\t}\n\treturn c.str\n", "\tif s, ok := c.raw.(Stringer); ok {\n\t\treturn s.String()\n\t}\n\treturn c.str\n"))
m("m04-error-before-gostring", "C01", "type switch tests error before GoStringer",
  ("cell.go", "\tcase GoStringer:\n\t\tc.str = o.GoString()\n\tcase error:\n\t\tc.str = o.Error()\n",
              "\tcase error:\n\t\tc.str = o.Error()\n\tcase GoStringer:\n\t\tc.str = o.GoString()\n"))
# ---- C02
m("m05-allrows-returns-internal-slice", "C02", "AllRows returns the table's own slice",
  ("atable.go", "\trr := make([]*Row, len(t.rows))\n\tcopy(rr, t.rows)\n\treturn rr\n", "\treturn t.rows\n"))
m("m06-cellat-column-bound-off-by-one", "C02", "CellAt accepts column len+1 ... rejects the last column",
  ("atable.go", "loc.Column > len(r.cells) {", "loc.Column >= len(r.cells) {"))
m("m07-rownum-before-append", "C02", "row number assigned before the row is appended",
  ("atable.go", "\tt.rows = append(t.rows, row)\n\trow.inTable = t\n\trow.rowNum = len(t.rows)\n", "\trow.rowNum = len(t.rows)\n\tt.rows = append(t.rows, row)\n\trow.inTable = t\n"))
m("m08-separator-not-numbered", "C02", "separator rows do not get a row number",
  ("atable.go", "\tsep.rowNum = len(t.rows)\n", ""))
m("m09-column-handle-exists-beyond-count", "C02", "Column(NColumns+1) hands out a fresh column instead of nil",
  ("atable.go", "\tif n < 0 || n > t.nColumns {\n\t\treturn nil\n\t}", "\tif n == t.nColumns+1 {\n\t\treturn &column{ofTable: t}\n\t}\n\tif n < 0 || n > t.nColumns {\n\t\treturn nil\n\t}"))
# ---- C03 / C04
m("m10-centre-odd-space-left", "C04", "centre alignment puts the odd space on the left",
  ("texttable/decoration/strings.go", "\t\tleft := pad / 2\n\t\tright := pad - left\n", "\t\tright := pad / 2\n\t\tleft := pad - right\n"))
m("m11-column0-default-beats-own", "C04", "column-0 default alignment overrides a column's own setting",
  ("texttable/render.go", "\t\tif a != nil {\n\t\t\tcolumnAligns[i] = a.(align.Alignment)\n\t\t} else if defaultAlignRaw != nil {\n\t\t\tcolumnAligns[i] = defaultAlignRaw.(align.Alignment)\n\t\t}",
   "\t\tif defaultAlignRaw != nil {\n\t\t\tcolumnAligns[i] = defaultAlignRaw.(align.Alignment)\n\t\t} else if a != nil {\n\t\t\tcolumnAligns[i] = a.(align.Alignment)\n\t\t}"))
m("m12-column-width-ignores-header", "C03", "column widths computed from body cells only",
  ("texttable/render.go", "\t\t\tcolumnWidths[i] = CellPropertyExtractDimensions(&headers[i]).cellWidth\n", "\t\t\t_ = CellPropertyExtractDimensions(&headers[i]).cellWidth\n"))
m("m13-rule-one-short", "C03", "rule lines repeat the horizontal glyph w+1 times",
  ("texttable/decoration/emit.go", "strings.Repeat(horiz, 2+e.colWidths[i])", "strings.Repeat(horiz, 1+e.colWidths[i])"))
m("m14-width-of-first-line-only", "C03", "line width measured on the first line for every line",
  ("texttable/properties.go", "\t\t\tW: length.StringCells(l),\n", "\t\t\tW: length.StringCells(lines[0]),\n"))
m("m15-right-align-moves-trailing-space", "C04", "right alignment moves the text's own trailing spaces to the left of it",
  ("texttable/decoration/strings.go", "\t\treturn strings.Repeat(\" \", pad) + ws.S\n", "\t\treturn strings.Repeat(\" \", pad+len(ws.S)-len(strings.TrimRight(ws.S, \" \"))) + strings.TrimRight(ws.S, \" \")\n"))
m("m16-wide-runes-counted-as-one", "", "StringCells counts runes",
  ("length/length.go", "\treturn runewidth.StringWidth(s)\n", "\t_ = runewidth.StringWidth\n\treturn utf8.RuneCountInString(s)\n"))
# ---- C05
m("m17-csv-quote-not-doubled", "C05", "csv does not double embedded quotes",
  ("csv/csv.go", "\t\tif in[i] == '\"' {\n\t\t\tb[j] = '\"'\n\t\t\tj++\n\t\t}\n", ""))
m("m18-csv-doubles-apostrophe", "C05", "csv doubles apostrophes too",
  ("csv/csv.go", "\t\tif in[i] == '\"' {\n", "\t\tif in[i] == '\"' || in[i] == '\\'' {\n"))
m("m19-csv-padding-one-short", "C05", "csv pads short rows with one field too few",
  ("csv/csv.go", "\tfor ; i < columnCount; i++ {\n\t\tif _, err := fmt.Fprint(w, ct.fieldSeparator, \"\\\"\\\"\"); err != nil {", "\tfor i++; i < columnCount; i++ {\n\t\tif _, err := fmt.Fprint(w, ct.fieldSeparator, \"\\\"\\\"\"); err != nil {"))
m("m20-csv-crlf-normalised", "C05", "csv turns CRLF inside a field into LF",
  ("csv/csv.go", "func (ct *CSVTable) csvEscape(in string) string {\n", "func (ct *CSVTable) csvEscape(in string) string {\n\tin = strings.Replace(in, \"\\r\\n\", \"\\n\", -1)\n"),
  ("csv/csv.go", "\t\"io\"\n", "\t\"io\"\n\t\"strings\"\n"))
m("m21-csv-zero-columns-empty-output", "C05", "csv renders a column-less table as empty output without error",
  ("csv/csv.go", "\tif columnCount < 1 {\n\t\treturn fmt.Errorf(\"csv:RenderTo: can't emit a table with %d columns\", columnCount)\n\t}", "\tif columnCount < 1 {\n\t\treturn nil\n\t}"))
# ---- C06
m("m22-html-cells-trusted", "C06", "html passes cell text as template.HTML",
  ("html/html.go", "func cellsToStringArray(cells []tabular.Cell) []string {\n\tr := make([]string, len(cells))\n\tfor i := range cells {\n\t\tr[i] = cells[i].String()\n\t}\n\treturn r\n}",
   "func cellsToStringArray(cells []tabular.Cell) []template.HTML {\n\tr := make([]template.HTML, len(cells))\n\tfor i := range cells {\n\t\tr[i] = template.HTML(cells[i].String())\n\t}\n\treturn r\n}"),
  ("html/html.go", "\"Headers\":  func() []string {", "\"Headers\":  func() []template.HTML {"),
  ("html/html.go", "\"CellsOf\":  func(r *tabular.Row) []string {", "\"CellsOf\":  func(r *tabular.Row) []template.HTML {"))
m("m23-html-oneplus-dropped", "C06", "row-class generator gets the 0-based index",
  ("html/html.go", "\"OnePlus\":  func(i int) int { return i + 1 },", "\"OnePlus\":  func(i int) int { return i },"))
m("m24-html-caption-trusted", "C06", "caption inserted as trusted HTML",
  ("html/html.go", "\t\tId, Class, Caption string\n", "\t\tId, Class string\n\t\tCaption       template.HTML\n"),
  ("html/html.go", "\t\tCaption:      ht.Caption,\n", "\t\tCaption:      template.HTML(ht.Caption),\n"))
m("m25-html-generator-skips-separators", "C06", "row numbers passed to the generator do not count separators",
  ("html/html.go", "\"Rows\":     func() []*tabular.Row { return ht.Table.AllRows() },", "\"Rows\": func() []*tabular.Row {\n\t\t\tvar rs []*tabular.Row\n\t\t\tfor _, r := range ht.Table.AllRows() {\n\t\t\t\tif !r.IsSeparator() {\n\t\t\t\t\trs = append(rs, r)\n\t\t\t\t}\n\t\t\t}\n\t\t\treturn rs\n\t\t},"))
# ---- C07
m("m26-json-skipable-drops-nonempty", "C07", "skipable columns are omitted even when the cell is not empty",
  ("json/json.go", "\t\tif skipableColumns[i] && cells[i].Empty() {", "\t\tif skipableColumns[i] {"))
m("m27-json-key-unencoded", "C07", "header text written as key without JSON encoding",
  ("json/json.go", "\t\tkeys[i] = append(t, byte(':'), byte(' '))\n", "\t\t_ = t\n\t\tkeys[i] = append([]byte(\"\\\"\"+s+\"\\\"\"), byte(':'), byte(' '))\n"))
m("m28-json-fallback-for-any-object", "C07", "text fallback used whenever the item encodes as an object",
  ("json/json.go", "\t\tif bytes.Equal(t, []byte(\"{}\")) && fallback != \"\" {", "\t\tif bytes.HasPrefix(t, []byte(\"{\")) && fallback != \"\" {"))
m("m29-json-duplicate-headers-accepted", "C07", "duplicate header check removed",
  ("json/json.go", "\t\tif previous, already := seen[s]; already {\n\t\t\treturn fmt.Errorf(\"json:RenderTo: column %d header matches previous column %d: %q\", i+1, previous, s)\n\t\t}\n", ""))
m("m30-json-render-returns-partial-on-error", "C07,C09", "Render returns the partial buffer together with the error",
  ("json/json.go", "\tif err != nil {\n\t\treturn \"\", err\n\t}\n\treturn b.String(), nil\n}", "\tif err != nil {\n\t\treturn b.String(), err\n\t}\n\treturn b.String(), nil\n}"))
m("m31-json-column0-skipable-ignored", "C07", "column-0 skipable default not applied",
  ("json/json.go", "\t\t\tskipableColumns[i] = defaultSkipable\n", "\t\t\tskipableColumns[i] = false && defaultSkipable\n"))
m("m32-json-nonbool-skipable-accepted", "C07", "non-boolean skipable on a column treated as false",
  ("json/json.go", "\t\t\t} else {\n\t\t\t\treturn fmt.Errorf(\"json:RenderTo: column %d Skipable property is non-boolean (%T)\", i+1, sk)\n\t\t\t}", "\t\t\t}"))
# ---- C08
m("m33-md-pipe-unescaped", "C08", "markdown leaves pipes unescaped",
  ("markdown/markdown.go", "strings.Replace(strings.Replace(html.EscapeString(in), \"|\", \"&#x7c;\", -1), \"\\n\", \"&#x0a;\", -1)", "strings.Replace(html.EscapeString(in), \"\\n\", \"&#x0a;\", -1)"))
m("m34-md-entity-without-semicolon", "C08", "pipe entity lacks the semicolon",
  ("markdown/markdown.go", "\"&#x7c;\"", "\"&#x7c\""))
m("m35-md-lf-unescaped", "C08", "markdown leaves line feeds in cells",
  ("markdown/markdown.go", "strings.Replace(strings.Replace(html.EscapeString(in), \"|\", \"&#x7c;\", -1), \"\\n\", \"&#x0a;\", -1)", "strings.Replace(html.EscapeString(in), \"|\", \"&#x7c;\", -1)"))
m("m36-md-no-html-escape", "C08", "markdown does not HTML-escape cell text",
  ("markdown/markdown.go", "strings.Replace(strings.Replace(html.EscapeString(in), \"|\", \"&#x7c;\", -1), \"\\n\", \"&#x0a;\", -1)", "strings.Replace(strings.Replace(strings.Replace(in[:len(html.EscapeString(in[:0]))]+in, \"&\", \"&amp;\", -1), \"|\", \"&#x7c;\", -1), \"\\n\", \"&#x0a;\", -1)"))
m("m37-md-right-marker-leading", "C08", "right alignment written with a leading colon",
  ("markdown/markdown.go", "\t\t\tcontent = \" \" + strings.Repeat(\"-\", width) + \":\"\n", "\t\t\tcontent = \":\" + strings.Repeat(\"-\", width) + \" \"\n"))
m("m38-md-two-dashes", "C08", "delimiter cells may have two dashes",
  ("markdown/markdown.go", "\t\tif width < 3 {\n\t\t\twidth = 3\n\t\t}", "\t\tif width < 2 {\n\t\t\twidth = 2\n\t\t}"))
m("m39-md-headerless-rendered", "C08", "a table without headers is rendered with an empty header",
  ("markdown/markdown.go", "\tif headers == nil {\n\t\treturn fmt.Errorf(\"markdown:RenderTo: can't emit a table without headers\")\n\t}", "\tif headers == nil {\n\t\theaders = []tabular.Cell{}\n\t}"))
# ---- C09
m("m40-text-width-guard-removed", "", "(equivalent candidate) off-by-one guard removed in column width loop",
  ("texttable/render.go", "\t\t\tif i > columnCount {\n\t\t\t\tbreak\n\t\t\t}\n", ""))
m("m41-csv-header-row-indexed", "C09,C05", "csv indexes the first header cell unconditionally again for headers",
  ("csv/csv.go", "\tif headers != nil {\n\t\tif err = ct.emitRow(w, columnCount, headers); err != nil {", "\tif headers != nil {\n\t\t_ = headers[0]\n\t\tif err = ct.emitRow(w, columnCount, headers); err != nil {"))
# ---- C10
m("m42-auto-csv-case-sensitive", "C10,C19", "auto.Wrap no longer lower-cases the first section",
  ("auto/auto.go", "switch strings.ToLower(sections[0]) {", "switch sections[0] {"))
m("m43-render-differs-from-renderto", "C10", "csv.Render trims the final newline",
  ("csv/csv.go", "\treturn b.String(), nil\n}", "\treturn strings.TrimSuffix(b.String(), \"\\n\"), nil\n}"),
  ("csv/csv.go", "\t\"io\"\n", "\t\"io\"\n\t\"strings\"\n"))
m("m44-markdown-wrap-of-wrapper-loses-widths", "C10", "markdown.Wrap registers its callback only for core tables",
  ("markdown/markdown.go", "\tt.RegisterPropertyCallback(t, tabular.CB_AT_RENDER, tabular.CB_ON_CELL, ws)\n", "\tif _, ok := t.(*tabular.ATable); ok {\n\t\tt.RegisterPropertyCallback(t, tabular.CB_AT_RENDER, tabular.CB_ON_CELL, ws)\n\t}\n"))
# ---- C11
m("m45-row-errors-appended-twice", "C11", "row errors added to the table twice on attach",
  ("atable.go", "\t\tt.AddErrorList(es)\n", "\t\tt.AddErrorList(es)\n\t\tif len(es) > 1 {\n\t\t\tt.AddError(es[0])\n\t\t}\n"))
m("m46-errors-empty-nonnil", "C11", "Errors() returns an empty non-nil slice",
  ("error_containers.go", "\tif len(ec.errors_) == 0 {\n\t\treturn nil\n\t}", "\tif ec.errors_ == nil {\n\t\treturn nil\n\t}"))
m("m47-render-column-errors-dropped", "C11", "errors of column-level cell callbacks at render time are dropped",
  ("render_callbacks.go", "\t\t\tinvokePropertyCallbacks(col.cellCallbacks, CB_AT_RENDER_POSTCELL, ptr, row.ErrorContainer)\n", "\t\t\tinvokePropertyCallbacks(col.cellCallbacks, CB_AT_RENDER_POSTCELL, ptr, (*ErrorContainer)(nil))\n"))
m("m48-adderrorlist-reverses", "C11", "AddErrorList with nil entries appends the non-nil ones in reverse",
  ("error_containers.go", "\t\tfor j := range el {\n\t\t\tif el[j] != nil {\n\t\t\t\tec.errors_ = append(ec.errors_, el[j])\n\t\t\t}\n\t\t}", "\t\tfor j := len(el) - 1; j >= 0; j-- {\n\t\t\tif el[j] != nil {\n\t\t\t\tec.errors_ = append(ec.errors_, el[j])\n\t\t\t}\n\t\t}"))
# ---- C12
m("m49-setproperty-without-strip", "C12", "SetProperty pushes without removing the old value (growth)",
  ("properties.go", "\t_, remainder := stripReturnValue(pi.properties, key)\n", "\tremainder := pi.properties\n\tif value == nil {\n\t\t_, remainder = stripReturnValue(pi.properties, key)\n\t}\n"))
m("m50-getproperty-ignores-key-type", "C12", "keys compared by printed form",
  ("properties.go", "\tif v.key == key {\n\t\treturn v.val\n\t}", "\tif fmt.Sprint(v.key) == fmt.Sprint(key) {\n\t\treturn v.val\n\t}"))
m("m51-set-nil-keeps-older-duplicate", "C12", "setting nil removes only when the key is the head",
  ("properties.go", "\tif value == nil {\n\t\tpi.properties = remainder\n\t}", "\tif value == nil {\n\t\tif top, ok := pi.properties.(*valueProperty); ok && top.key == key {\n\t\t\tpi.properties = remainder\n\t\t}\n\t}"))
# ---- C13
m("m52-row-callbacks-invoked-twice", "C13", "row-itself pre-cell callbacks invoked twice per pass",
  ("render_callbacks.go", "\tinvokePropertyCallbacks(row.rowItselfCallbacks, CB_AT_RENDER_PRECELL, row, ec)\n", "\tinvokePropertyCallbacks(row.rowItselfCallbacks, CB_AT_RENDER_PRECELL, row, ec)\n\tinvokePropertyCallbacks(row.rowItselfCallbacks, CB_AT_RENDER_PRECELL, row, ec)\n"))
m("m53-column-cell-callbacks-skipped", "C13", "column-level pre-cell callbacks not invoked",
  ("render_callbacks.go", "\t\tif col != nil {\n\t\t\tinvokePropertyCallbacks(col.cellCallbacks, CB_AT_RENDER_PRECELL, ptr, row.ErrorContainer)\n\t\t}\n", ""))
m("m54-pre-and-post-swapped", "C13", "row cell pre and post callbacks swapped",
  ("render_callbacks.go", "\t\tinvokePropertyCallbacks(row.rowCellCallbacks, CB_AT_RENDER_PRECELL, ptr, ec)\n\n", "\t\tinvokePropertyCallbacks(row.rowCellCallbacks, CB_AT_RENDER_POSTCELL, ptr, ec)\n\n"),
  ("render_callbacks.go", "\t\tinvokePropertyCallbacks(row.rowCellCallbacks, CB_AT_RENDER_POSTCELL, ptr, ec)\n\t\tif col != nil {", "\t\tinvokePropertyCallbacks(row.rowCellCallbacks, CB_AT_RENDER_PRECELL, ptr, ec)\n\t\tif col != nil {"))
m("m55-cell-row-target-accepted", "C13", "registering a row-targeted callback on a cell is accepted",
  ("properties.go", "\t\tcase CB_ON_ITSELF, CB_ON_CELL:\n\t\t\tset = &base.callbacks", "\t\tcase CB_ON_ITSELF, CB_ON_CELL, CB_ON_ROW:\n\t\t\tset = &base.callbacks"))
m("m56-addrow-cell-callbacks-on-copy", "C13", "table-level add-time cell callbacks receive a copy of the cell",
  ("atable.go", "\t\tinvokePropertyCallbacks(t.tableCellCallbacks, CB_AT_ADD, ptr, row.ErrorContainer)\n\t}\n\n\treturn t", "\t\tcp := *ptr\n\t\tinvokePropertyCallbacks(t.tableCellCallbacks, CB_AT_ADD, &cp, row.ErrorContainer)\n\t}\n\n\treturn t"))
m("m57-table-post-before-columns", "C13", "table-itself post callbacks run before the columns' post callbacks",
  ("render_callbacks.go", "\tfor _, col := range t.columns {\n\t\tinvokePropertyCallbacks(col.columnItselfCallbacks, CB_AT_RENDER_POSTCELL, col, ec)\n\t}\n\tinvokePropertyCallbacks(t.tableItselfCallbacks, CB_AT_RENDER_POSTCELL, t, ec)\n", "\tinvokePropertyCallbacks(t.tableItselfCallbacks, CB_AT_RENDER_POSTCELL, t, ec)\n\tfor _, col := range t.columns {\n\t\tinvokePropertyCallbacks(col.columnItselfCallbacks, CB_AT_RENDER_POSTCELL, col, ec)\n\t}\n"))
m("m58-out-of-range-time-accepted", "C13", "unknown callback time registered as add-time",
  ("properties.go", "\tdefault:\n\t\treturn fmt.Errorf(\"unhandled callbackTime when registering properties (%v)\", when)\n", "\tdefault:\n\t\tcbListPtr = &set.addTime\n"))
# ---- C14
m("m59-html-template-package-cache", "C14,C16", "html caches the parsed template (with the first wrapper's functions) in a package variable",
  ("html/html.go", "func (ht *HTMLTable) RenderTo(w io.Writer) (err error) {\n\tht.InvokeRenderCallbacks()\n\n\tif ht.template == nil {\n\t\tht.template, err =", "var sharedTemplate *template.Template\n\nfunc (ht *HTMLTable) RenderTo(w io.Writer) (err error) {\n\tht.InvokeRenderCallbacks()\n\n\tif ht.template == nil && sharedTemplate != nil {\n\t\tht.template = sharedTemplate\n\t}\n\tif ht.template == nil {\n\t\tdefer func() { sharedTemplate = ht.template }()\n\t\tht.template, err ="))
m("m60-render-updates-cells", "C14", "text rendering re-reads every item (Update) during the measuring pass",
  ("texttable/properties.go", "\tdims := dimensions{\n", "\tcell.Update()\n\tdims := dimensions{\n"))
m("m61-text-render-sets-default-alignment", "C14", "text rendering stores the resolved alignment back on the columns",
  ("texttable/render.go", "\t\t} else if defaultAlignRaw != nil {\n\t\t\tcolumnAligns[i] = defaultAlignRaw.(align.Alignment)\n", "\t\t} else if defaultAlignRaw != nil {\n\t\t\tcolumnAligns[i] = defaultAlignRaw.(align.Alignment)\n\t\t\tc.SetProperty(align.PropertyType, defaultAlignRaw)\n"))
# ---- C15
m("m62-json-unchecked-separator-write", "C15", "json ignores the result of writing a separator's blank line",
  ("json/json.go", "\t\tfor ; pendingBlanks > 0; pendingBlanks-- {\n\t\t\tif _, err = io.WriteString(w, \"\\n\"); err != nil {\n\t\t\t\treturn err\n\t\t\t}\n\t\t}\n\t\tif err = jt.emitRowAsJSONObject", "\t\tfor ; pendingBlanks > 0; pendingBlanks-- {\n\t\t\tio.WriteString(w, \"\\n\")\n\t\t}\n\t\tif err = jt.emitRowAsJSONObject"))
m("m63-csv-unchecked-padding-write", "C15", "csv ignores errors when writing padding fields",
  ("csv/csv.go", "\t\tif _, err := fmt.Fprint(w, ct.fieldSeparator, \"\\\"\\\"\"); err != nil {\n\t\t\treturn err\n\t\t}", "\t\tfmt.Fprint(w, ct.fieldSeparator, \"\\\"\\\"\")"))
m("m64-text-unchecked-bottom-rule", "C15", "text table ignores the error of the final rule",
  ("texttable/render.go", "\tif _, err := io.WriteString(w, emitter.LineBottom()); err != nil {\n\t\treturn err\n\t}", "\tio.WriteString(w, emitter.LineBottom())"))
m("m65-markdown-unchecked-padding-bar", "C15", "markdown ignores errors when writing padding columns",
  ("markdown/markdown.go", "\t\tif _, err := io.WriteString(w, \" |\"); err != nil {\n\t\t\treturn err\n\t\t}", "\t\tio.WriteString(w, \" |\")"))
# ---- C16
m("m66-shared-pad-buffer", "C16", "WithinWidthAligned builds its result in a package-level scratch buffer",
  ("texttable/decoration/strings.go", "func (ws WidthString) WithinWidthAligned(available int, howAlign align.Alignment) string {\n", "var scratch []byte\n\nfunc (ws WidthString) WithinWidthAligned(available int, howAlign align.Alignment) string {\n\tif howAlign == align.Right && ws.W >= 0 {\n\t\tpad := available - ws.W\n\t\tif pad < 0 {\n\t\t\tpad = 0\n\t\t}\n\t\tscratch = scratch[:0]\n\t\tfor i := 0; i < pad; i++ {\n\t\t\tscratch = append(scratch, ' ')\n\t\t}\n\t\tscratch = append(scratch, ws.S...)\n\t\treturn string(scratch)\n\t}\n"))
m("m67-markdown-last-widths-cache", "C16", "markdown keeps the last computed widths in a package variable and reuses the slice",
  ("markdown/markdown.go", "\twidths := make([]int, columnCount)\n", "\tif cap(lastWidths) < columnCount {\n\t\tlastWidths = make([]int, columnCount)\n\t}\n\twidths := lastWidths[:columnCount]\n\tfor i := range widths {\n\t\twidths[i] = 0\n\t}\n"),
  ("markdown/markdown.go", "// A MarkdownTable wraps", "var lastWidths []int\n\n// A MarkdownTable wraps"))
# ---- C17
m("m68-named-without-lock", "C17", "Named reads the registry map without the lock",
  ("texttable/decoration/registry.go", "\tregistry.Lock()\n\td, ok := registry.table[n]\n\tregistry.Unlock()\n", "\td, ok := registry.table[n]\n"))
m("m69-names-without-sort", "C17,C19", "RegisteredDecorationNames returns map order",
  ("texttable/decoration/registry.go", "\tsort.Strings(a)\n\treturn a\n", "\t_ = sort.Strings\n\treturn a\n"))
m("m70-named-falls-back-to-default", "C17,C19", "Named returns the heavy box for unknown names",
  ("texttable/decoration/registry.go", "\treturn EmptyDecoration\n}", "\treturn UTF8BoxHeavy()\n}"))
m("m71-list-snapshot-outside-lock", "C17", "RegisteredDecorationNames sizes its slice before taking the lock",
  ("texttable/decoration/registry.go", "\tregistry.Lock()\n\tdefer registry.Unlock()\n\ta := make([]string, len(registry.table))\n\ti := 0\n\tfor k := range registry.table {\n\t\ta[i] = k\n\t\ti++\n\t}\n", "\ta := make([]string, 0, len(registry.table))\n\tregistry.Lock()\n\tdefer registry.Unlock()\n\tfor k := range registry.table {\n\t\ta = append(a, k)\n\t}\n"))
m("m72-register-keeps-first", "C17", "RegisterDecorationName does not overwrite an existing entry",
  ("texttable/decoration/registry.go", "\tregistry.table[name] = decor\n", "\tif _, exists := registry.table[name]; !exists {\n\t\tregistry.table[name] = decor\n\t}\n"))
m("m73-unknown-decoration-renders-default", "C17,C19", "text table with the empty decoration renders with the default instead of refusing",
  ("texttable/render.go", "\tif t.decor == decoration.EmptyDecoration {\n\t\treturn errors.New(\"table has no decoration at all, can't render\")\n\t}", "\tif t.decor == decoration.EmptyDecoration {\n\t\t_ = errors.New\n\t\tt.decor = decoration.UTF8BoxHeavy()\n\t}"))
# ---- C18
m("m74-lines-drops-two-trailing", "C18", "Lines drops every trailing empty segment",
  ("length/length.go", "\tif ss[len(ss)-1] == \"\" {\n\t\tss = ss[:len(ss)-1]\n\t}", "\tfor len(ss) > 0 && ss[len(ss)-1] == \"\" {\n\t\tss = ss[:len(ss)-1]\n\t}"))
m("m75-longestlinecells-fastpath-bytes", "C18", "single-line fast path of LongestLineCells returns bytes",
  ("length/length.go", "\tcase 1:\n\t\treturn StringCells(ss[0])\n", "\tcase 1:\n\t\treturn StringBytes(ss[0])\n"))
m("m76-height-counts-trailing-newline", "C18", "cell height counts a trailing newline as a line",
  ("cell.go", "\t\tif strings.HasSuffix(c.str, \"\\n\") {\n\t\t\tc.height -= 1\n\t\t}\n", ""))
# ---- C19
m("m77-liststyles-forgets-json", "C19", "ListStyles omits json",
  ("auto/auto.go", "l = append(l, \"csv\", \"html\", \"json\", \"markdown\")", "l = append(l, \"csv\", \"html\", \"markdown\")"))
m("m78-texttable-prefix-case-sensitive", "C19", "only lower-case 'texttable.' prefix recognised",
  ("auto/auto.go", "\tcase \"texttable\":\n", "\tcase \"texttable\":\n\t\tif sections[0] != \"texttable\" {\n\t\t\ttt := texttable.Wrap(t)\n\t\t\ttt.SetDecorationNamed(style)\n\t\t\treturn tt\n\t\t}\n"))
m("m79-liststyles-unsorted-tail", "C19", "ListStyles appends the renderer names without re-sorting",
  ("auto/auto.go", "\tsort.Strings(l)\n\treturn l\n", "\t_ = sort.Strings\n\treturn l\n"))

cat = []
for name, expected, desc, edits in M:
    subprocess.run(["git", "-C", W, "checkout", "-q", "--", "."], check=True)
    ok = True
    for f, old, new in edits:
        p = os.path.join(W, f)
        s = open(p).read()
        if old not in s:
            print("EDIT DOES NOT MATCH:", name, f, repr(old[:60]))
            ok = False
            break
        open(p, "w").write(s.replace(old, new, 1))
    if not ok:
        continue
    subprocess.run(["gofmt", "-w"] + sorted(set(os.path.join(W, e[0]) for e in edits)), check=False)
    d = subprocess.run(["git", "-C", W, "diff"], capture_output=True, text=True).stdout
    open(os.path.join(HERE, "mutants", name + ".patch"), "w").write(d)
    cat.append("%s\t%s\t%s" % (name, expected, desc))
subprocess.run(["git", "-C", W, "checkout", "-q", "--", "."], check=True)
lines = [l for l in open(os.path.join(HERE, "catalogue.tsv")).read().split("\n") if l and not l.startswith("m")]
open(os.path.join(HERE, "catalogue.tsv"), "w").write("\n".join(lines + cat) + "\n")
print(len(cat), "mutants written")
