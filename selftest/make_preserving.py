#!/usr/bin/env python3
"""Generates property-PRESERVING refactorings (selftest/mutants/pNN-*.patch): none of the
19 checks may fire on them (they may well break the repository's golden tests - that is not
the point here).  Usage: make_preserving.py <scratch worktree>"""
import os, subprocess, sys
W = sys.argv[1]
HERE = os.path.dirname(os.path.abspath(__file__))
M = []
def m(name, desc, *edits): M.append((name, desc, edits))

m("p01-top-rule-glyphs-swapped", "header-top and body-top rule use each other's down-tee glyph (glyph identity is not part of any statement)",
  ("texttable/decoration/emit.go", "return e.commonTemplateLine(e.decor.TopLeft, e.decor.HOuter, e.decor.HTopDown, e.decor.TopRight)", "return e.commonTemplateLine(e.decor.TopLeft, e.decor.HOuter, e.decor.BTopDown, e.decor.TopRight)"))
m("p02-larger-row-capacity", "NewRow pre-sizes for 32 cells",
  ("row.go", "return NewRowWithCapacity(10)", "return NewRowWithCapacity(32)"))
m("p03-json-compact-whitespace", "JSON written without the space after colon and comma",
  ("json/json.go", "keys[i] = append(t, byte(':'), byte(' '))", "keys[i] = append(t, byte(':'))"),
  ("json/json.go", "\t\tseparator = \", \"\n", "\t\tseparator = \",\"\n"))
m("p04-markdown-left-with-leading-colon", "left alignment written as :---",
  ("markdown/markdown.go", "\t\tcase nil, align.Left:\n\t\t\tcontent = \" \" + strings.Repeat(\"-\", width) + \" \"\n", "\t\tcase nil:\n\t\t\tcontent = \" \" + strings.Repeat(\"-\", width) + \" \"\n\t\tcase align.Left:\n\t\t\tcontent = \":\" + strings.Repeat(\"-\", width) + \" \"\n"))
m("p05-html-whitespace-and-attribute-order", "id before class, different indentation",
  ("html/html.go", "<table {{- with .Class}} class=\"{{.}}\"{{end}} {{- with .Id}} id=\"{{.}}\"{{end}}>", "<table {{- with .Id}} id=\"{{.}}\"{{end}} {{- with .Class}} class=\"{{.}}\"{{end}}>"),
  ("html/html.go", "  <thead>\n    <tr", "<thead>\n<tr"))
m("p06-error-messages-reworded", "error texts changed",
  ("csv/csv.go", "csv:RenderTo: can't emit a table with %d columns", "csv: refusing to render a table that has %d columns"),
  ("texttable/render.go", "table has no decoration at all, can't render", "no decoration set"))
m("p07-markdown-extra-cell-padding", "two spaces around every markdown cell",
  ("markdown/markdown.go", "\tbarLeft := \"| \"\n\tbarRight := \" |\"\n\tbarCenter := \" | \"\n", "\tbarLeft := \"|  \"\n\tbarRight := \"  |\"\n\tbarCenter := \"  |  \"\n"))
m("p08-allrows-extra-capacity", "AllRows copy has spare capacity",
  ("atable.go", "\trr := make([]*Row, len(t.rows))\n", "\trr := make([]*Row, len(t.rows), len(t.rows)+8)\n"))
m("p09-registry-rwmutex", "registry guarded by an RWMutex, readers take the read lock",
  ("texttable/decoration/registry.go", "\tsync.Mutex\n", "\tsync.RWMutex\n"),
  ("texttable/decoration/registry.go", "func Named(n string) Decoration {\n\tregistry.Lock()\n\td, ok := registry.table[n]\n\tregistry.Unlock()\n", "func Named(n string) Decoration {\n\tregistry.RLock()\n\td, ok := registry.table[n]\n\tregistry.RUnlock()\n"))
m("p10-headers-shrink-resets-count", "a narrower replacement header lets NColumns fall back to the live maximum",
  ("atable.go", "func (t *ATable) AddHeaders(items ...interface{}) Table {\n\tt.resizeColumnsAtLeast(len(items))\n", "func (t *ATable) AddHeaders(items ...interface{}) Table {\n\tif t.headerRow != nil && len(items) < len(t.headerRow.cells) {\n\t\tlive := len(items)\n\t\tfor _, r := range t.rows {\n\t\t\tif len(r.cells) > live {\n\t\t\t\tlive = len(r.cells)\n\t\t\t}\n\t\t}\n\t\tif live < t.nColumns {\n\t\t\tt.nColumns = live\n\t\t\tt.columns = t.columns[:live+1]\n\t\t}\n\t}\n\tt.resizeColumnsAtLeast(len(items))\n"))
m("p11-csv-single-write-per-record", "csv builds each record in a buffer and writes it once (fewer write sites, same bytes)",
  ("csv/csv.go", "func (ct *CSVTable) emitRow(w io.Writer, columnCount int, cells []tabular.Cell) error {\n", "func (ct *CSVTable) emitRow(out io.Writer, columnCount int, cells []tabular.Cell) error {\n\tw := &bytes.Buffer{}\n\tif err := ct.emitRowTo(w, columnCount, cells); err != nil {\n\t\treturn err\n\t}\n\t_, err := out.Write(w.Bytes())\n\treturn err\n}\n\nfunc (ct *CSVTable) emitRowTo(w io.Writer, columnCount int, cells []tabular.Cell) error {\n"))
m("p12-text-measure-once-per-table", "texttable.Wrap registers its measuring callback only if none is registered yet on this wrapper chain (fewer duplicate callbacks)",
  ("texttable/properties.go", "\tpo.SetProperty(propDimensions, dims)\n", "\tif prev, ok := po.GetProperty(propDimensions).(dimensions); ok && prev == dims {\n\t\t// unchanged since the last pass\n\t\t_ = prev\n\t}\n\tpo.SetProperty(propDimensions, dims)\n"))

for name, desc, edits in M:
    subprocess.run(["git", "-C", W, "checkout", "-q", "--", "."], check=True)
    ok = True
    for f, old, new in edits:
        p = os.path.join(W, f); s = open(p).read()
        if old not in s:
            print("EDIT DOES NOT MATCH:", name, f, repr(old[:70])); ok = False; break
        open(p, "w").write(s.replace(old, new, 1))
    if not ok: continue
    subprocess.run(["gofmt", "-w"] + sorted(set(os.path.join(W, e[0]) for e in edits)), check=False)
    r = subprocess.run("cd %s && GOFLAGS=-mod=mod GOPROXY=off GOSUMDB=off GOTOOLCHAIN=local go build ./..." % W, shell=True, capture_output=True, text=True)
    if r.returncode != 0:
        print("DOES NOT BUILD:", name, r.stderr[:300]); continue
    d = subprocess.run(["git", "-C", W, "diff"], capture_output=True, text=True).stdout
    open(os.path.join(HERE, "mutants", name + ".patch"), "w").write(d)
    print("wrote", name)
subprocess.run(["git", "-C", W, "checkout", "-q", "--", "."], check=True)
lines = [l for l in open(os.path.join(HERE, "catalogue.tsv")).read().split("\n") if l and not l.startswith("p")]
lines += ["%s\tNONE\t%s" % (n, d) for n, d, _ in M]
open(os.path.join(HERE, "catalogue.tsv"), "w").write("\n".join(lines) + "\n")
