#!/bin/bash
# selftest/run_mutants.sh [-a] [pattern]
#
# Sensitivity self-test of the checks (not referenced by MANIFEST.json).
# For every patch in selftest/mutants/ and every kept seeded change in
# seeded/*/patch.diff (optionally filtered by a substring pattern):
#   1. reset a scratch worktree of /repo (outside /repo and /verif) to HEAD and apply the patch;
#   2. run the repository's own test suite there with the guard off - a mutant that
#      fails it is not the kind of change this task is about and is reported as such;
#   3. run the checks named in selftest/catalogue.tsv (or all 19 with -a) in quick tier
#      against the scratch tree (VERIF_REPO) with evidence/replays diverted to a scratch
#      root, and record which of them exit 1 with a VIOLATION line.
# The worktree and its build output are removed at the end.
set -u
HERE="$(cd "$(dirname "${BASH_SOURCE[0]}")/.." && pwd)"
ALL=0
if [ "${1:-}" = "-a" ]; then ALL=1; shift; fi
PAT="${1:-}"
export GOFLAGS=-mod=mod GOPROXY=off GOSUMDB=off GOTOOLCHAIN=local
WORK="${VSF_WORK:-/tmp/vsf-selftest}"
ROOT="$WORK-root"
TAG="alt$(echo -n "$WORK" | md5sum | cut -c1-8)"
rm -rf "$ROOT"; mkdir -p "$ROOT"
cp "$HERE/KNOWN_FINDINGS.txt" "$ROOT/"
git -C /repo worktree remove --force "$WORK" >/dev/null 2>&1
rm -rf "$WORK"
git -C /repo worktree add --detach "$WORK" HEAD >/dev/null 2>&1 || { echo "cannot create worktree"; exit 2; }
trap 'git -C /repo worktree remove --force "$WORK" >/dev/null 2>&1; rm -rf "$WORK" "$ROOT" "$HERE"/.build/bin/vcheck-$TAG* "$HERE"/.build/bin/min-$TAG-* "$HERE"/.build/$TAG.* "$HERE"/.build/build-$TAG*; git -C /repo worktree prune' EXIT
ALLPROPS="C01 C02 C03 C04 C05 C06 C07 C08 C09 C10 C11 C12 C13 C14 C15 C16 C17 C18 C19"
OUT="$HERE/selftest/RESULTS.tsv"
: > "$OUT.new"
printf "%-58s %-6s %-14s %s\n" "mutant" "suite" "expected" "checks that fired"
for patch in "$HERE"/selftest/mutants/*.patch "$HERE"/selftest/refactorings/*.patch "$HERE"/seeded/*/patch.diff; do
  [ -f "$patch" ] || continue
  name="$(basename "$patch" .patch)"
  case "$patch" in */seeded/*) name="seeded-$(basename "$(dirname "$patch")")";; */refactorings/*) name="refactor-$name";; esac
  if [ -n "$PAT" ] && [[ "$name" != *"$PAT"* ]]; then continue; fi
  expected="$(awk -F'\t' -v n="$name" '$1==n{print $2}' "$HERE/selftest/catalogue.tsv" 2>/dev/null)"
  case "$name" in refactor-*) expected=NONE;; esac
  git -C "$WORK" checkout -q -- . ; git -C "$WORK" clean -fdq
  git -C "$WORK" checkout -q --detach "$(git -C /repo rev-parse HEAD)" 2>/dev/null
  if ! git -C "$WORK" apply "$patch" 2>/dev/null; then
    # a seeded change written against an earlier commit: judge it on its base commit
    base="$(sed -n 's/.*"base_commit": "\([0-9a-f]*\)".*/\1/p' "$(dirname "$patch")/meta.json" 2>/dev/null | head -1)"
    if [ -n "$base" ] && git -C "$WORK" checkout -q --detach "$base" 2>/dev/null && git -C "$WORK" apply "$patch" 2>/dev/null; then
      name="$name@$base"
    else
      printf "%-58s %-6s %-14s %s\n" "$name" "-" "$expected" "PATCH DOES NOT APPLY"; continue
    fi
  fi
  if (cd "$WORK" && go build ./... >/dev/null 2>&1 && go test -vet=off -count=1 ./... >"$ROOT/suite.log" 2>&1); then suite=pass; else suite=FAIL; fi
  props="$expected"
  if [ $ALL -eq 1 ] || [ -z "$props" ] || [ "$props" = NONE ]; then props="$ALLPROPS"; fi
  fired=""
  for p in ${props//,/ }; do
    VERIF_ROOT="$ROOT" VERIF_REPO="$WORK" "$HERE/run.sh" "$p" quick > "$ROOT/$name-$p.log" 2>&1; e=$?
    if [ $e -eq 1 ] && grep -q "^VIOLATION property=$p " "$ROOT/$name-$p.log"; then fired="$fired $p"
    elif [ $e -ne 0 ]; then fired="$fired $p(exit$e)"; fi
  done
  verdict="MISSED"
  for p in ${expected//,/ }; do case " $fired " in *" $p "*) verdict="caught";; esac; done
  [ -z "$expected" ] && verdict="-"
  if [ "$expected" = NONE ]; then if [ -z "$fired" ]; then verdict="silent-ok"; else verdict="FALSE-ALARM"; fi; fi
  printf "%-58s %-6s %-14s %s  [%s]\n" "$name" "$suite" "$expected" "${fired:- none}" "$verdict"
  printf "%s\t%s\t%s\t%s\t%s\n" "$name" "$suite" "$expected" "${fired# }" "$verdict" >> "$OUT.new"
done
if [ -z "$PAT" ]; then mv "$OUT.new" "$OUT"; else rm -f "$OUT.new"; fi
exit 0
