#!/bin/bash
# run.sh <Cxx> <quick|thorough> [--replay <file>]
# Builds the harness against the CURRENT working tree of the repository
# (default /repo; VERIF_REPO overrides for self-tests on scratch copies) with
# the hook guard on (-tags verif), then runs the check of one property.
# Exit: 0 held / 1 VIOLATION / 2 INCONCLUSIVE.
set -u
PROP="${1:?usage: run.sh <Cxx> <quick|thorough> [--replay file]}"
TIER="${2:-quick}"
shift; shift || true
HERE="$(cd "$(dirname "${BASH_SOURCE[0]}")" && pwd)"
export VERIF_ROOT="${VERIF_ROOT:-$HERE}"
export GOFLAGS=-mod=mod GOPROXY=off GOSUMDB=off GOTOOLCHAIN=local CGO_ENABLED=1
export GOCACHE="${GOCACHE:-$HOME/.cache/go-build}"
REPO="${VERIF_REPO:-/repo}"
BUILD="$HERE/.build"
mkdir -p "$BUILD/bin" "$BUILD/run"

RACE=""
case "$PROP" in C16|C17) RACE="-race";; esac

MODARGS=()
TAG="std"
if [ "$REPO" != "/repo" ]; then
  # self-test against a scratch copy: same harness, alternative go.mod
  TAG="alt$(echo -n "$REPO" | md5sum | cut -c1-8)"
  sed "s#=> /repo#=> $REPO#" "$HERE/harness/go.mod" > "$BUILD/$TAG.mod"
  cp "$HERE/harness/go.sum" "$BUILD/$TAG.sum"
  MODARGS=(-modfile="$BUILD/$TAG.mod")
fi
BIN="$BUILD/bin/vcheck-$TAG${RACE}"
( cd "$HERE/harness" && go build "${MODARGS[@]}" -tags verif $RACE -o "$BIN" ./cmd/vcheck ) > "$BUILD/build-$TAG$RACE.log" 2>&1
if [ $? -ne 0 ]; then
  cat "$BUILD/build-$TAG$RACE.log"
  echo "INCONCLUSIVE property=$PROP reason=harness-build-failed-against-$REPO"
  exit 2
fi
# C10 and C19 also run programs that link only part of the library (cmd/minprog, one binary per build tag)
case "$PROP" in C10|C19)
  for m in auto csv html json markdown text; do
    ( cd "$HERE/harness" && go build "${MODARGS[@]}" -tags "verif min_$m" -o "$BUILD/bin/min-$TAG-$m" ./cmd/minprog ) >> "$BUILD/build-$TAG$RACE.log" 2>&1
    if [ $? -ne 0 ]; then
      cat "$BUILD/build-$TAG$RACE.log"
      echo "INCONCLUSIVE property=$PROP reason=minimal-program-build-failed-against-$REPO"
      exit 2
    fi
  done
  export VERIF_MINPROG="$BUILD/bin/min-$TAG-";;
esac
# C17's fresh-process scripts (and C16's long-table batches, a second time) run in a child built WITHOUT the race
# detector: its timing is that of a production binary, and only there does the Go runtime notice
# that every goroutine is blocked for good ("all goroutines are asleep"), which turns a registry call that never
# returns into a deterministic, clock-free verdict
if [ "$PROP" = C17 ] || [ "$PROP" = C16 ]; then
  ( cd "$HERE/harness" && go build "${MODARGS[@]}" -tags verif -o "$BUILD/bin/vcheck-$TAG" ./cmd/vcheck ) >> "$BUILD/build-$TAG$RACE.log" 2>&1
  if [ $? -ne 0 ]; then
    cat "$BUILD/build-$TAG$RACE.log"
    echo "INCONCLUSIVE property=$PROP reason=harness-build-failed-against-$REPO"
    exit 2
  fi
  export VERIF_PLAIN_EXE="$BUILD/bin/vcheck-$TAG"
fi
if [ "${1:-}" = "--replay" ]; then
  exec "$BIN" -prop "$PROP" -replay "${2:?replay file}"
fi
exec "$BIN" -prop "$PROP" -tier "$TIER"
