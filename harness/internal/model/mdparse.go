package model

import (
	"fmt"
	"strings"
)

// SplitGFMLine splits one line of a GFM table on unescaped pipes, byte-wise:
// a pipe is escaped iff it is preceded by an odd number of backslashes.  The
// line must begin and end with an unescaped pipe (after trimming spaces);
// the returned pieces are the raw cell slices between consecutive pipes.
func SplitGFMLine(line string) (cells []string, pipes int, err error) {
	var idx []int
	bs := 0
	for i := 0; i < len(line); i++ {
		switch line[i] {
		case '\\':
			bs++
			continue
		case '|':
			if bs%2 == 0 {
				idx = append(idx, i)
			}
		}
		bs = 0
	}
	pipes = len(idx)
	if pipes < 2 {
		return nil, pipes, fmt.Errorf("line has %d unescaped pipes", pipes)
	}
	if strings.Trim(line[:idx[0]], " ") != "" {
		return nil, pipes, fmt.Errorf("text before the first pipe: %q", line[:idx[0]])
	}
	if strings.Trim(line[idx[len(idx)-1]+1:], " ") != "" {
		return nil, pipes, fmt.Errorf("text after the last pipe: %q", line[idx[len(idx)-1]+1:])
	}
	for k := 0; k+1 < len(idx); k++ {
		cells = append(cells, line[idx[k]+1:idx[k+1]])
	}
	return cells, pipes, nil
}

// escapable are the characters a Markdown cell must never carry raw.
const mdSpecial = "&<>\"'|\n"

// CheckMDCellRaw verifies that a raw cell slice contains no raw special
// character: none of < > " ' (pipe and LF are excluded by the splitting), and
// every '&' starts a character reference that escaping one of the special
// characters could have produced.
func CheckMDCellRaw(raw string) error {
	for i := 0; i < len(raw); i++ {
		switch raw[i] {
		case '<', '>', '"', '\'':
			return fmt.Errorf("raw %q at offset %d", raw[i], i)
		case '\r':
			// CR is a documented non-goal and never generated; not judged here
		case '&':
			end := strings.IndexByte(raw[i:], ';')
			if end < 0 {
				return fmt.Errorf("raw '&' at offset %d does not start a character reference", i)
			}
			ref := raw[i+1 : i+end]
			if !mdRefOK(ref) {
				return fmt.Errorf("raw '&' at offset %d: %q is not the escape of a special character", i, raw[i:i+end+1])
			}
		}
	}
	return nil
}

func mdRefOK(ref string) bool {
	switch ref {
	case "amp", "lt", "gt", "quot", "apos":
		return true
	}
	if len(ref) < 2 || ref[0] != '#' {
		return false
	}
	var v int
	if ref[1] == 'x' || ref[1] == 'X' {
		if len(ref) < 3 || len(ref) > 8 {
			return false
		}
		for _, ch := range []byte(ref[2:]) {
			switch {
			case ch >= '0' && ch <= '9':
				v = v*16 + int(ch-'0')
			case ch >= 'a' && ch <= 'f':
				v = v*16 + int(ch-'a') + 10
			case ch >= 'A' && ch <= 'F':
				v = v*16 + int(ch-'A') + 10
			default:
				return false
			}
		}
	} else {
		if len(ref) > 8 {
			return false
		}
		for _, ch := range []byte(ref[1:]) {
			if ch < '0' || ch > '9' {
				return false
			}
			v = v*10 + int(ch-'0')
		}
	}
	return v > 0 && v < 128 && strings.IndexByte(mdSpecial, byte(v)) >= 0
}
