package model

import (
	"fmt"
	"strings"
)

// TextCell is one cell as the text-table oracle sees it.
type TextCell struct {
	Lines []string // text lines (length.Lines of the documented text form)
	DeclW *int     // declared display width, if the item overrides width
	DeclH *int     // declared height, if the item overrides height
}

// TextRow is a separator or a list of cells.
type TextRow struct {
	Sep   bool
	Cells []TextCell
}

// TextModel is what the rendered text table is parsed against.
type TextModel struct {
	NCols          int
	Header         *TextRow // nil: no header block
	HeaderOptional bool     // header of zero cells: the block may be present or absent
	Rows           []TextRow
	// Aligns gives the effective alignment per column (0/1 left, 2 right, 3 centre);
	// nil means any split of the padding is accepted (C03).
	Aligns []int
}

// TextParseError says where and why the output does not match.
type TextParseError struct {
	Class string // "structure", "line-count", "rule", "content"
	Msg   string
}

func (e *TextParseError) Error() string { return e.Class + ": " + e.Msg }

type segment struct {
	rule   bool
	row    *TextRow
	what   string
	lmin   int
	flex   bool
	option bool // segment (and the rule after it) may be absent
}

type textParser struct {
	lines   []string
	glyphs  []string
	boxless bool
	m       *TextModel
	w       []int
	W       func(string) int
	segs    []segment
	memo    map[[2]int]bool
	farSeg  int
	farLine int
	farMsg  string
}

// ColumnWidths computes w_i = the widest cell of column i, where a cell's
// width is its declared width (clamped at 0) or else the width of its longest line.
func ColumnWidths(m *TextModel, W func(string) int) []int {
	w := make([]int, m.NCols)
	visit := func(r *TextRow) {
		if r == nil || r.Sep {
			return
		}
		for i, c := range r.Cells {
			if i >= m.NCols {
				break
			}
			cw := 0
			if c.DeclW != nil {
				cw = *c.DeclW
				if cw < 0 {
					cw = 0
				}
			} else {
				for _, l := range c.Lines {
					if x := W(l); x > cw {
						cw = x
					}
				}
			}
			if cw > w[i] {
				w[i] = cw
			}
		}
	}
	visit(m.Header)
	for i := range m.Rows {
		visit(&m.Rows[i])
	}
	return w
}

// ParseTextTable checks a rendered text table against the model.  glyphs is
// the set of non-empty glyph strings of the decoration (each one display cell
// wide); boxless decorations emit content lines only.
func ParseTextTable(out string, glyphs []string, boxless bool, m *TextModel, W func(string) int) *TextParseError {
	if out == "" {
		// only legitimate for a boxless table without content lines
		if boxless && m.Header == nil && len(m.Rows) == 0 {
			return nil
		}
		if boxless {
			allSep := m.Header == nil || m.HeaderOptional
			for _, r := range m.Rows {
				if !r.Sep {
					allSep = false
				}
			}
			if allSep {
				return nil
			}
		}
		return &TextParseError{"structure", "output is empty"}
	}
	if !strings.HasSuffix(out, "\n") {
		return &TextParseError{"structure", "output does not end with a line feed"}
	}
	p := &textParser{glyphs: glyphs, boxless: boxless, m: m, W: W, memo: map[[2]int]bool{}}
	p.lines = strings.Split(strings.TrimSuffix(out, "\n"), "\n")
	p.w = ColumnWidths(m, W)
	rowSeg := func(r *TextRow, what string) segment {
		s := segment{row: r, what: what, lmin: 1}
		for i, c := range r.Cells {
			if i >= m.NCols {
				break
			}
			if len(c.Lines) > s.lmin {
				s.lmin = len(c.Lines)
			}
			if c.DeclH != nil {
				s.flex = true
				if *c.DeclH > s.lmin {
					s.lmin = *c.DeclH
				}
			}
		}
		return s
	}
	if !boxless {
		p.segs = append(p.segs, segment{rule: true, what: "top rule"})
	}
	if m.Header != nil {
		hs := rowSeg(m.Header, "header block")
		hs.option = m.HeaderOptional
		p.segs = append(p.segs, hs)
		if !boxless {
			p.segs = append(p.segs, segment{rule: true, what: "header rule", option: m.HeaderOptional})
		}
	}
	for i := range m.Rows {
		r := &m.Rows[i]
		if r.Sep {
			if !boxless {
				p.segs = append(p.segs, segment{rule: true, what: fmt.Sprintf("rule for separator row %d", i+1)})
			}
			continue
		}
		p.segs = append(p.segs, rowSeg(r, fmt.Sprintf("row %d", i+1)))
	}
	if !boxless {
		p.segs = append(p.segs, segment{rule: true, what: "bottom rule"})
	}
	if p.parse(0, 0) {
		return nil
	}
	cls := "structure"
	if p.farMsg == "" {
		p.farMsg = "no parse"
	}
	if strings.HasPrefix(p.farMsg, "rule") {
		cls = "rule"
	} else if strings.HasPrefix(p.farMsg, "content") {
		cls = "content"
	} else if strings.HasPrefix(p.farMsg, "line-count") {
		cls = "line-count"
	}
	return &TextParseError{cls, fmt.Sprintf("at output line %d (expecting %s): %s", p.farLine+1, p.segWhat(p.farSeg), p.farMsg)}
}

func (p *textParser) segWhat(i int) string {
	if i >= len(p.segs) {
		return "end of output"
	}
	return p.segs[i].what
}

func (p *textParser) fail(seg, line int, msg string) {
	if line > p.farLine || (line == p.farLine && seg >= p.farSeg) || p.farMsg == "" {
		p.farSeg, p.farLine, p.farMsg = seg, line, msg
	}
}

func (p *textParser) parse(seg, line int) bool {
	if seg == len(p.segs) {
		if line == len(p.lines) {
			return true
		}
		p.fail(seg, line, fmt.Sprintf("line-count: %d lines left over after the bottom of the table (first: %q)", len(p.lines)-line, p.lines[line]))
		return false
	}
	key := [2]int{seg, line}
	if done, ok := p.memo[key]; ok {
		return done
	}
	p.memo[key] = false
	s := &p.segs[seg]
	ok := false
	if s.option {
		// absent variant: skip this segment (for the header block, its rule follows and is optional too)
		if p.parse(seg+1, line) {
			ok = true
		}
	}
	if !ok {
		if s.rule {
			if line >= len(p.lines) {
				p.fail(seg, line, "line-count: output ends where a rule line is expected")
			} else if err := p.matchRule(p.lines[line]); err != "" {
				p.fail(seg, line, "rule: "+err)
			} else if p.parse(seg+1, line+1) {
				ok = true
			}
		} else {
			// content block: consume L >= lmin lines (exactly lmin unless flexible)
			maxL := len(p.lines) - line
			for n := 0; ; n++ {
				// lines [line, line+n) have matched as text lines 0..n-1 of this row
				if n >= s.lmin {
					if p.parse(seg+1, line+n) {
						ok = true
						break
					}
					if !s.flex {
						break
					}
				}
				if n >= maxL {
					if n < s.lmin {
						p.fail(seg, line+n, fmt.Sprintf("line-count: output ends after %d of the at least %d lines of %s", n, s.lmin, s.what))
					}
					break
				}
				if err := p.matchContent(p.lines[line+n], s.row, n); err != "" {
					if n < s.lmin {
						p.fail(seg, line+n, fmt.Sprintf("content: text line %d of %s: %s", n+1, s.what, err))
					}
					break
				}
			}
		}
	}
	p.memo[key] = ok
	return ok
}

// matchSeq matches line against a sequence of elements, each a set of alternatives.
func matchSeq(line string, elems [][]string) bool {
	type key struct{ e, pos int }
	memo := map[key]bool{}
	var rec func(e, pos int) bool
	rec = func(e, pos int) bool {
		if e == len(elems) {
			return pos == len(line)
		}
		k := key{e, pos}
		if v, ok := memo[k]; ok {
			return v
		}
		res := false
		for _, alt := range elems[e] {
			if strings.HasPrefix(line[pos:], alt) && rec(e+1, pos+len(alt)) {
				res = true
				break
			}
		}
		memo[k] = res
		return res
	}
	return rec(0, 0)
}

func (p *textParser) matchRule(line string) string {
	for _, h := range p.glyphs {
		elems := make([][]string, 0, 2*len(p.w)+1)
		elems = append(elems, p.glyphs)
		for _, w := range p.w {
			elems = append(elems, []string{strings.Repeat(h, w+2)}, p.glyphs)
		}
		if matchSeq(line, elems) {
			return ""
		}
	}
	return fmt.Sprintf("line %q is not a rule of the form G (H x (w+2) G)* for column widths %v with G,H glyphs of the decoration", line, p.w)
}

// slotAlternatives returns the accepted byte strings for column i on text line n of row r.
func (p *textParser) slotAlternatives(r *TextRow, i, n int) []string {
	text := ""
	wt := 0
	if i < len(r.Cells) {
		c := &r.Cells[i]
		if n < len(c.Lines) {
			text = c.Lines[n]
			wt = p.W(text)
			if c.DeclW != nil && len(c.Lines) == 1 {
				wt = *c.DeclW
				if wt < 0 {
					wt = 0
				}
			}
		}
	}
	pad := p.w[i] - wt
	if pad < 0 {
		pad = 0
	}
	if p.m.Aligns == nil && pad > 64 {
		// very wide column: only the canonical splits are tried (left, right, centre either way)
		var alts []string
		for _, l := range []int{0, pad, pad / 2, pad - pad/2} {
			alts = append(alts, strings.Repeat(" ", l)+text+strings.Repeat(" ", pad-l))
		}
		return alts
	}
	if p.m.Aligns == nil {
		alts := make([]string, 0, pad+1)
		for l := 0; l <= pad; l++ {
			alts = append(alts, strings.Repeat(" ", l)+text+strings.Repeat(" ", pad-l))
		}
		return alts
	}
	l := 0
	switch p.m.Aligns[i] {
	case 2:
		l = pad
	case 3:
		l = pad / 2
	}
	return []string{strings.Repeat(" ", l) + text + strings.Repeat(" ", pad-l)}
}

func (p *textParser) matchContent(line string, r *TextRow, n int) string {
	var elems [][]string
	sp := []string{" "}
	if len(p.glyphs) == 0 {
		// no vertical pieces at all: the slots are joined by one blank
		for i := range p.w {
			if i > 0 {
				elems = append(elems, sp)
			}
			elems = append(elems, p.slotAlternatives(r, i, n))
		}
	} else {
		elems = append(elems, p.glyphs)
		for i := range p.w {
			elems = append(elems, sp, p.slotAlternatives(r, i, n), sp, p.glyphs)
		}
	}
	if matchSeq(line, elems) {
		return ""
	}
	var want []string
	for i := range p.w {
		a := p.slotAlternatives(r, i, n)
		want = append(want, fmt.Sprintf("%q", a[0]))
	}
	return fmt.Sprintf("line %q does not consist of divider glyphs and the slots %s (column widths %v)", line, strings.Join(want, " "), p.w)
}
