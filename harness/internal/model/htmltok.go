package model

import (
	"fmt"
	"strings"
)

// HTMLToken is a start tag, an end tag or a run of text.
type HTMLToken struct {
	Kind  byte // 'S' start tag, 'E' end tag, 'T' text
	Name  string
	Attrs [][2]string // raw (still entity-encoded) attribute values, in order
	Text  string      // raw text
}

// TokenizeHTMLStrict splits output into tags and text.  It is deliberately
// strict: tags are `<name( attr="value")*>` or `</name>` with lower-case
// alphabetic names, attribute values double-quoted and free of '"', '<'
// and '>'; text is free of '<' and '>'.  Anything else is an error, so markup
// smuggled in through content cannot be tokenized as text.
func TokenizeHTMLStrict(s string) ([]HTMLToken, error) {
	var toks []HTMLToken
	i := 0
	for i < len(s) {
		if s[i] != '<' {
			j := i
			for j < len(s) && s[j] != '<' {
				if s[j] == '>' {
					return nil, fmt.Errorf("offset %d: raw '>' in text", j)
				}
				j++
			}
			toks = append(toks, HTMLToken{Kind: 'T', Text: s[i:j]})
			i = j
			continue
		}
		// tag
		j := i + 1
		end := false
		if j < len(s) && s[j] == '/' {
			end = true
			j++
		}
		k := j
		for k < len(s) && s[k] >= 'a' && s[k] <= 'z' {
			k++
		}
		if k == j {
			return nil, fmt.Errorf("offset %d: '<' not followed by a tag name", i)
		}
		tok := HTMLToken{Kind: 'S', Name: s[j:k]}
		if end {
			tok.Kind = 'E'
			if k >= len(s) || s[k] != '>' {
				return nil, fmt.Errorf("offset %d: malformed end tag", i)
			}
			toks = append(toks, tok)
			i = k + 1
			continue
		}
		for {
			if k >= len(s) {
				return nil, fmt.Errorf("offset %d: unterminated tag", i)
			}
			if s[k] == '>' {
				k++
				break
			}
			if s[k] != ' ' {
				return nil, fmt.Errorf("offset %d: unexpected byte %q in tag <%s", k, s[k], tok.Name)
			}
			k++
			a := k
			for k < len(s) && s[k] >= 'a' && s[k] <= 'z' {
				k++
			}
			if k == a {
				return nil, fmt.Errorf("offset %d: attribute name expected in <%s", k, tok.Name)
			}
			name := s[a:k]
			if k+1 >= len(s) || s[k] != '=' || s[k+1] != '"' {
				return nil, fmt.Errorf("offset %d: attribute %s is not of the form name=\"value\"", k, name)
			}
			k += 2
			v := k
			for k < len(s) && s[k] != '"' {
				if s[k] == '<' || s[k] == '>' {
					return nil, fmt.Errorf("offset %d: raw %q inside attribute value", k, s[k])
				}
				k++
			}
			if k >= len(s) {
				return nil, fmt.Errorf("offset %d: unterminated attribute value", v)
			}
			tok.Attrs = append(tok.Attrs, [2]string{name, s[v:k]})
			k++
		}
		toks = append(toks, tok)
		i = k
	}
	return toks, nil
}

// IsSpaceText says whether a text token is inter-tag whitespace.
func IsSpaceText(s string) bool { return strings.Trim(s, " \t\r\n") == "" }
