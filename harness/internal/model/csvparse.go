// Package model holds the oracles which are independent of the code under
// test: strict parsers of the rendered formats and small reference models.
package model

import "fmt"

// ParseCSVStrict is a byte-level RFC 4180 parser for the all-fields-quoted
// dialect with LF record terminators:
//
//	file   = record*
//	record = field (',' field)* '\n'
//	field  = '"' ( [^"] | '""' )* '"'
//
// It must consume the whole input; there is no tolerance (no bare fields, no
// CRLF folding, no trailing garbage).
func ParseCSVStrict(b []byte) ([][]string, error) {
	var recs [][]string
	i := 0
	for i < len(b) {
		var rec []string
		for {
			if i >= len(b) || b[i] != '"' {
				return nil, fmt.Errorf("offset %d: field does not start with a double quote", i)
			}
			i++
			var f []byte
			for {
				if i >= len(b) {
					return nil, fmt.Errorf("offset %d: unterminated quoted field", i)
				}
				if b[i] == '"' {
					if i+1 < len(b) && b[i+1] == '"' {
						f = append(f, '"')
						i += 2
						continue
					}
					i++
					break
				}
				f = append(f, b[i])
				i++
			}
			rec = append(rec, string(f))
			if i >= len(b) {
				return nil, fmt.Errorf("offset %d: record not terminated by LF", i)
			}
			if b[i] == ',' {
				i++
				continue
			}
			if b[i] == '\n' {
				i++
				break
			}
			return nil, fmt.Errorf("offset %d: byte %q after closing quote (want ',' or LF)", i, b[i])
		}
		recs = append(recs, rec)
	}
	return recs, nil
}
