package gen

import "strings"

// Fam is a set of alphabet families.  Strings are drawn atom by atom, not
// byte by byte, so hostile sequences appear at useful density.
type Fam uint32

const (
	FAscii     Fam = 1 << iota // letters, digits, spaces, runs of spaces, tabs
	FNewline                   // LF in all positions
	FCR                        // CR and CRLF
	FWide                      // fullwidth, CJK, ideographic space
	FCombining                 // combining marks, attached and standalone, U+FF9E
	FZero                      // zero-width: ZWSP, ZWJ, VS16, LRE ...
	FEmoji                     // ZWJ families, flags, skin tones, keycaps
	FCSV                       // quote, doubled quote, comma, NUL
	FHTML                      // markup-hostile
	FMD                        // pipes, backslashes, entity look-alikes, dashes, colons
	FInvalid                   // invalid UTF-8
	FSGR                       // terminal escape sequences
	FNUL                       // the NUL byte on its own
	FEdge                      // valid code points that code likes to mistake for something else: U+FFFD (the decoder's error value), noncharacters, the last code point, encoding-length boundaries, U+2028/2029/NEL, VT, FF, information separators, DEL
)

var atoms = map[Fam][]string{
	FAscii:     {"a", "b", "Z", "q", "0", "7", " ", "  ", "   ", "\t", "x y", "word", "Hello", "-", "_", ".", "~", "lorem ipsum", "A", "m", "9", "!", "#", "(", ")", "=", "%", "a.b"},
	FNewline:   {"\n", "\n", "\n\n", "a\nb", "\n ", " \n"},
	FCR:        {"\r", "\r\n", "\n\r", "a\rb", "\r\r"},
	FWide:      {"\u4e16", "\u754c", "\u65e5\u672c\u8a9e", "\uff26", "\uff57", "\u3000", "\ud55c", "\uae00", "\u3042", "\uff71", "\u20ac", "\u00e9", "\u00df", "\u03a9", "\u0436", "\u2192", "\u263a", "\u2713", "\u00bd"},
	FCombining: {"e\u0301", "\u0301", "a\u0308\u0304", "\u0300\u0301", "n\u0303", "\uff9e", "\uff8a\uff9e", "\u0e01\u0e34", "\u0e34", "\u20dd", "o\u20dd", "\u05d0\u05b8", "\u00e9"},
	FZero:      {"\u200b", "\u200d", "\ufe0f", "\u202a", "\u202c", "\u2060", "\ufeff", "\u00ad", "a\u200bb", "\u200e"},
	FEmoji:     {"\U0001F600", "\U0001F468\u200d\U0001F469\u200d\U0001F467", "\U0001F1E9\U0001F1EA", "\U0001F1FA", "\U0001F44D\U0001F3FD", "1\ufe0f\u20e3", "\u2764\ufe0f", "\u260e", "\U0001F3F3\ufe0f\u200d\U0001F308", "\U0001F9D1\u200d\U0001F4BB", "\u231a", "\u00a9"},
	FCSV:       {"\"", "\"\"", ",", ",,", "\",\"", "\"\n\"", "a,b", "\"x\"", ",\"", "'", ";"},
	FHTML:      {"<", ">", "&", "\"", "'", "`", "&amp;", "&lt;", "&#60;", "&#x3c", "&#x3c;", "<script>", "</script>", "</td>", "<td>", "</tr>", "</table>", "<!--", "-->", "{{.}}", "{{", "<b>x</b>", "<img src=x onerror=alert(1)>", " onmouseover=\"x\"", "javascript:alert(1)", "&#39;", "&quot;", "&", "&&", "&;", "&#;", "&#x;", "&copy", "&copy;", "&#0;", "<style>", "]]>", "<![CDATA[", "=", "/", "\\"},
	FMD:        {"|", "||", "\\", "\\|", "\\\\", "\\\\|", "&#x7c;", "&#124;", "&#x0a;", "---", ":--", "--:", ":-:", ":", "-", "*", "_", "`", "`|`", "[a](b)", "![x](y)", "#", "> ", "~~", "| a | b |", "\\\n"},
	FInvalid:   {"\x80", "\xbf", "\xc3", "\xe2\x82", "\xf0\x9f\x98", "\xff", "\xfe", "\xc0\xaf", "\xed\xa0\x80", "\xf8\x88\x80\x80\x80", "a\xffb"},
	FSGR:       {"\x1b[1m", "\x1b[0m", "\x1b[31m", "\x1b[38;5;200m", "\x1b[m"},
	FNUL:       {"\x00", "a\x00b"},
	FEdge: {"\u061c", "a\u2066b\u2069", "\u2067", "\u2068x", "\u202eabc\u202c", "\u200e", "\u200f", "\ufffd", "a\ufffdb", "\ufffd\ufffd", "\uffff", "\ufffe", "\U0010ffff", "\ue000", "\u0080", "\u07ff", "\u0800", "\U00010000", "\u2028", "\u2029", "\u0085", "\v", "\f", "\x1c", "\x1f", "\x7f", "\u00a0", "\ufdd0",
		// printable look-alikes of the escape sequences of the output formats (JSON, Go, C): every character of them is ordinary
		"\\u0008", "\\u000c", "\\u003c", "\\n", "\\t", "\\b", "\\f", "\\\"", "\\\\", "\\/", "\\x00", "\\u2028", "%20", "%s", "$1", "{{", "&#"},
}

var famOrder = []Fam{FAscii, FNewline, FCR, FWide, FCombining, FZero, FEmoji, FCSV, FHTML, FMD, FInvalid, FSGR, FNUL, FEdge}

// Atoms returns all atoms of the families in f (ascii first).
func Atoms(f Fam) []string {
	var out []string
	for _, k := range famOrder {
		if f&k != 0 {
			out = append(out, atoms[k]...)
		}
	}
	return out
}

func famList(f Fam) []Fam {
	var out []Fam
	for _, k := range famOrder {
		if f&k != 0 {
			out = append(out, k)
		}
	}
	return out
}

// Str draws a string of 0..maxAtoms atoms from the families in f.  ASCII is
// over-weighted so that hostile atoms sit inside ordinary text.
func (r *R) Str(f Fam, maxAtoms int) string {
	n := r.Small(maxAtoms)
	if r.Chance(1, 12) {
		n = 0
	} else if r.Chance(1, 16) {
		// medium-sized texts (tens of bytes, dense in special characters) sit between the short and the boundary-sized ones
		n = r.Range(8, 40)
	}
	s := r.StrN(f, n)
	if r.Chance(1, 150) {
		// occasionally a long text whose length sits at a buffer-size boundary
		s = r.StrN(f, r.Intn(2)) + r.LongRun(f) + s
	}
	return s
}

var longLens = []int{255, 256, 257, 511, 512, 1023, 1024, 1025, 4093, 4094, 4095, 4096, 4097, 4100}

// LongRun returns one atom of the families repeated up to a length (in bytes) next to a power of two.
func (r *R) LongRun(f Fam) string {
	fl := famList(f)
	atom := "x"
	if len(fl) > 0 && r.Chance(1, 3) {
		atom = Pick(r, atoms[Pick(r, fl)])
		if atom == "" || strings.Contains(atom, "\n") {
			atom = "x"
		}
	}
	target := Pick(r, longLens)
	n := target / len(atom)
	s := strings.Repeat(atom, n)
	s += strings.Repeat("y", target-len(s))
	return s
}

// StrN draws a string of exactly n atoms.
func (r *R) StrN(f Fam, n int) string {
	fl := famList(f)
	if len(fl) == 0 {
		return ""
	}
	var sb strings.Builder
	for i := 0; i < n; i++ {
		var k Fam
		if f&FAscii != 0 && r.Chance(2, 5) {
			k = FAscii
		} else {
			k = Pick(r, fl)
		}
		sb.WriteString(Pick(r, atoms[k]))
	}
	return sb.String()
}

// Word draws a non-empty ASCII word without spaces (used where a harmless
// unique-ish text is needed).
func (r *R) Word() string {
	const letters = "abcdefghijklmnopqrstuvwxyzABCDEFGHIJKLMNOPQRSTUVWXYZ"
	n := r.Range(1, 7)
	b := make([]byte, n)
	for i := range b {
		b[i] = letters[r.Intn(len(letters))]
	}
	return string(b)
}
