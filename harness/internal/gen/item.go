package gen

import (
	"encoding/json"
	"errors"
	"fmt"
	"html/template"
	"io"
	"math"
	"strconv"
	"strings"
	"sync"
	"time"
	"unicode/utf8"

	"go.pennock.tech/tabular"
)

// Q is a string which marshals to JSON as its Go-quoted ASCII form, so that
// replay files show invalid UTF-8, control and zero-width characters exactly.
type Q string

func (q Q) MarshalJSON() ([]byte, error) { return json.Marshal(strconv.QuoteToASCII(string(q))) }

// Fields is the shared field layout of the generated item types.
type Fields struct {
	S, G, E string
	HV, WV  int
}

func (f Fields) MarshalJSON() ([]byte, error) {
	return json.Marshal(map[string]interface{}{"S": Q(f.S), "G": Q(f.G), "E": Q(f.E), "H": f.HV, "W": f.WV})
}

// NilSafe is a type whose pointer-receiver String copes with a nil receiver.
type NilSafe struct{ S string }

func (n *NilSafe) String() string {
	if n == nil {
		return "<nil NilSafe>"
	}
	return n.S
}

// MyStr / MyRune / MyInt are named basic types: they are NOT string / rune, so the
// documented text form is fmt's %v.
type MyStr string
type MyRune rune
type MyInt int

// PlainStruct has no methods at all.
type PlainStruct struct {
	A int
	B string
}

// ItemSpec describes one item value that can be stored in a cell.
type ItemSpec struct {
	K     string    `json:"k"`
	Str   Q         `json:"s,omitempty"`
	Num   int64     `json:"n,omitempty"`
	Flt   float64   `json:"f,omitempty"`
	Code  string    `json:"code,omitempty"`
	F     *Fields   `json:"fields,omitempty"`
	Drift bool      `json:"fields_before_mutation_are_instead_set_AFTER_the_cell_was_made_and_without_Update,omitempty"` // the cell is made in the final state; afterwards the item changes to Pre and nobody asks the cell to update: it goes on showing the final text
	Share string    `json:"is_the_same_object_as_the_other_items_marked,omitempty"`                                      // items with the same mark are ONE object (a record reused per row): before each of their cells is made the object is set to that item's fields, and the cells made earlier are not told
	Pre   *Fields   `json:"fields_before_mutation,omitempty"`                                                            // typed by-pointer items: created with these, mutated to F (then Update) before the judged render
	Ptr   bool      `json:"ptr,omitempty"`
	Inner *ItemSpec `json:"inner,omitempty"`
}

// Made is a constructed item together with what the harness knows about it.
type Made struct {
	Item   interface{}
	Mutate func(Fields) // nil when the item cannot be mutated in place
	spec   *ItemSpec
}

// Spec returns the specification the item was made from.
func (m *Made) Spec() *ItemSpec { return m.spec }

// NeedsFinalize says whether the item was created in its pre-mutation state.
func (m *Made) NeedsFinalize() bool {
	if m.spec != nil && m.spec.Drift {
		return false
	}
	if m.spec != nil && m.spec.K == "cellptr" && m.spec.F != nil && m.spec.Inner != nil && m.spec.Inner.K == "typed" {
		return m.spec.Inner.Pre != nil && m.spec.Inner.Ptr && m.Mutate != nil
	}
	return m.spec != nil && m.spec.K == "typed" && m.spec.Pre != nil && m.spec.Ptr && m.Mutate != nil
}

// Drifts says whether the item changes after its cell was made, without the cell being asked to update.
func (m *Made) Drifts() bool {
	return m.spec != nil && m.spec.Drift && m.spec.K == "typed" && m.spec.Pre != nil && m.Mutate != nil
}

// StrItem is the plain string item.
func StrItem(s string) ItemSpec { return ItemSpec{K: "str", Str: Q(s)} }

// TypedItem is an item of a generated interface-subset type.
func TypedItem(code string, f Fields, byPtr bool) ItemSpec {
	return ItemSpec{K: "typed", Code: code, F: &f, Ptr: byPtr}
}

func codeParts(code string) (recv byte, subset, ov string) {
	recv = code[0]
	rest := code[1:]
	i := strings.IndexByte(rest, '_')
	subset, ov = rest[:i], rest[i+1:]
	if subset == "0" {
		subset = ""
	}
	if ov == "0" {
		ov = ""
	}
	return
}

// hasMethods says whether the value as passed to the library has the
// generated type's methods in its method set.
func (s *ItemSpec) hasMethods() bool {
	recv, _, _ := codeParts(s.Code)
	return recv == 'V' || s.Ptr
}

// Make constructs the item.
func (s *ItemSpec) Make() Made {
	m := Made{spec: s}
	switch s.K {
	case "nil":
		m.Item = nil
	case "str":
		m.Item = string(s.Str)
	case "rune":
		m.Item = rune(s.Num)
	case "int":
		m.Item = int(s.Num)
	case "int64":
		m.Item = s.Num
	case "uint8":
		m.Item = uint8(s.Num)
	case "uint":
		m.Item = uint(s.Num)
	case "float":
		m.Item = s.Flt
	case "bool":
		m.Item = s.Num != 0
	case "complex":
		m.Item = complex(s.Flt, float64(s.Num))
	case "mystr":
		m.Item = MyStr(s.Str)
	case "myrune":
		m.Item = MyRune(s.Num)
	case "myint":
		m.Item = MyInt(s.Num)
	case "bytes":
		m.Item = []byte(s.Str)
	case "slice":
		m.Item = []interface{}{int(s.Num), string(s.Str), nil}
	case "map":
		m.Item = map[string]int{string(s.Str): int(s.Num), "k": 1}
	case "struct":
		m.Item = PlainStruct{int(s.Num), string(s.Str)}
	case "structptr":
		m.Item = &PlainStruct{int(s.Num), string(s.Str)}
	case "err":
		m.Item = errors.New(string(s.Str))
	case "dur":
		m.Item = time.Duration(s.Num)
	case "ifacestruct":
		// a comparable TYPE (struct with an interface field, array of interfaces) whose VALUE holds a slice: fine to
		// print and to encode, not fine to use as a map key or to compare with ==
		m.Item = IfaceStruct{Kind: string(s.Str), Payload: []string{"a", "b"}}
	case "ifacearr":
		m.Item = [2]interface{}{string(s.Str), []int{1, 2}}
	case "anonG":
		// unnamed struct types: no name, no package path - but the methods of their embedded fields are promoted
		m.Item = struct{ VG_0 }{VG_0{G: string(s.Str), S: "<wrong: field S>"}}
	case "anonPS":
		m.Item = struct {
			*PS_0
			N int
		}{&PS_0{S: string(s.Str)}, 7}
	case "anonSE":
		m.Item = struct{ VSE_0 }{VSE_0{S: string(s.Str), E: "<wrong: Error>"}}
	case "lookS":
		m.Item = LookS{V: string(s.Str)}
	case "lookSB":
		m.Item = LookSB{V: string(s.Str)}
	case "lookW":
		m.Item = LookW{V: string(s.Str)}
	case "lookH":
		m.Item = &LookH{V: string(s.Str)}
	case "lookNone":
		m.Item = LookNone{V: string(s.Str)}
	case "tplhtml":
		m.Item = template.HTML(s.Str)
	case "tpljs":
		m.Item = template.JS(s.Str)
	case "tplurl":
		m.Item = template.URL(s.Str)
	case "tplattr":
		m.Item = template.HTMLAttr(s.Str)
	case "jsonnumber":
		m.Item = json.Number(s.Str)
	case "aggslice":
		tags := []string{string(s.Str), "tag"}
		m.Item = AggSlice{Name: "agg", Tags: tags}
		m.Mutate = func(f Fields) { tags[0] = f.S }
	case "aggstringer":
		st := &aggState{S: string(s.Str)}
		m.Item = AggStringer{st}
		m.Mutate = func(f Fields) { st.S = f.S }
	case "aggarrmap":
		mp := map[string]string{"k": string(s.Str)}
		m.Item = [1]map[string]string{mp}
		m.Mutate = func(f Fields) { mp["k"] = f.S }
	case "fmtuint":
		m.Item = FmtUint(s.Num)
	case "fmtint16":
		m.Item = FmtInt16(s.Num)
	case "fmtstr":
		m.Item = FmtStr(s.Str)
	case "fmtbool":
		m.Item = FmtBool(s.Num != 0)
	case "fmtfloat":
		m.Item = FmtFloat(s.Flt)
	case "fmtstruct":
		m.Item = FmtStruct{int(s.Num)}
	case "int8":
		m.Item = int8(s.Num)
	case "int16":
		m.Item = int16(s.Num)
	case "uint16":
		m.Item = uint16(s.Num)
	case "uint32":
		m.Item = uint32(s.Num)
	case "uint64":
		m.Item = uint64(s.Num)
	case "uintptr":
		m.Item = uintptr(s.Num)
	case "complex64":
		m.Item = complex64(complex(s.Flt, float64(s.Num)))
	case "array":
		m.Item = [3]int{int(s.Num), 2, 3}
	case "ptrint":
		v := int(s.Num)
		m.Item = &v
	case "nilsafe":
		m.Item = (*NilSafe)(nil)
	case "typed":
		f := *s.F
		if s.Pre != nil && s.Ptr && !s.Drift {
			f = *s.Pre
		}
		m.Item, m.Mutate = makeTyped(s.Code, f, s.Ptr)
	case "negzero":
		m.Item = math.Copysign(0, -1)
	case "negzero32":
		m.Item = float32(math.Copysign(0, -1))
	case "float32":
		m.Item = float32(s.Flt)
	case "nan":
		m.Item = math.NaN()
	case "inf":
		m.Item = math.Inf(1)
	case "cell":
		in := s.Inner.Make()
		m.Item = tabular.NewCell(in.Item)
	case "labelslice":
		// lists whose ELEMENT type has a text method: fmt asks every element
		m.Item = []NumLabel{MakeNumLabel(string(s.Str)), MakeNumLabel("second " + string(s.Str))}
	case "durslice":
		m.Item = []time.Duration{time.Second, 90 * time.Minute, time.Duration(s.Num)}
	case "montharr":
		m.Item = [2]time.Month{time.Month(1 + s.Num%12), time.December}
	case "errslice":
		m.Item = []error{fmt.Errorf("%s", string(s.Str)), nil}
	case "stringerstruct":
		m.Item = struct {
			D time.Duration
			L NumLabel
		}{time.Duration(s.Num) * time.Millisecond, MakeNumLabel(string(s.Str))}
	case "marshalonly":
		m.Item = MarshalOnly{int(s.Num), 4}
	case "marshalenum":
		m.Item = MarshalEnum(s.Num)
	case "aroundcell":
		m.Item = AroundCell{tabular.NewCell("<wrong: the embedded cell's text>"), string(s.Str)}
	case "aroundcellptr":
		in := tabular.NewCell("<wrong: the embedded cell's text>")
		m.Item = AroundCellE{&in, string(s.Str)}
	case "fmterr":
		m.Item = FmtErr{string(s.Str)}
	case "fmtgo":
		m.Item = &FmtGo{string(s.Str)}
	case "numlabel":
		m.Item = MakeNumLabel(string(s.Str))
	case "floatlabel":
		m.Item = MakeFloatLabel(string(s.Str))
	case "boollabel":
		m.Item = BoolLabel(s.Num%2 == 0)
	case "durmicro":
		m.Item = time.Duration(1500 + s.Num%7*1000)
	case "fielder":
		m.Item = FielderItem{string(s.Str)}
	case "owneritem":
		m.Item = OwnerItem{string(s.Str)}
	case "cellish":
		m.Item = CellishItem{string(s.Str)}
	case "bothmarshal":
		m.Item = BothMarshal{string(s.Str)}
	case "textmarshal":
		m.Item = TextOnlyMarshal{string(s.Str)}
	case "twinnameNum":
		m.Item = twinNameNum(s.Num)
	case "twinnameStr":
		m.Item = twinNameStr(string(s.Str))
	case "twinnameBool":
		m.Item = twinNameBool(s.Num != 0)
	case "cellcycle1":
		// a cell whose item is a pointer to itself (the spreadsheet's circular reference): it shows what it read last
		a := tabular.NewCell(string(s.Str))
		pa := &a
		a = tabular.NewCell(pa)
		m.Item = pa
	case "cellcycle2":
		// two cells holding pointers to each other
		a := tabular.NewCell(string(s.Str))
		b := tabular.NewCell(&a)
		a = tabular.NewCell(&b)
		m.Item = &a
	case "cellptr":
		in := s.Inner.Make()
		c := tabular.NewCell(in.Item)
		m.Item = &c
		if in.Mutate != nil {
			// the cell pointed at follows its item (it is asked to update); the cell HOLDING the pointer is not asked
			m.Mutate = func(f Fields) { in.Mutate(f); c.Update() }
		}
	default:
		panic("gen: unknown item kind " + s.K)
	}
	return m
}

// By-value aggregates that only look immutable at the top level: a struct with a slice field, a value-receiver
// Stringer wrapping a pointer to its state, an array of maps.  Stored by value in a cell they still share whatever
// their interior references point at, so after a mutation there and an Update the cell must read the new text.
type AggSlice struct {
	Name string
	Tags []string
}

type aggState struct{ S string }

type AggStringer struct{ st *aggState }

func (a AggStringer) String() string { return a.st.S }

// IfaceStruct is comparable as a type, but not when Payload holds a slice, map or func.
type IfaceStruct struct {
	Kind    string
	Payload interface{}
}

// Types whose only text method is fmt.Formatter: "anything else is formatted as fmt's %v", and %v asks the operand
// for Format before anything else.  One per scalar kind, and a struct.
type FmtUint uint64

func (f FmtUint) Format(s fmt.State, verb rune) { fmt.Fprintf(s, "%d units", uint64(f)) }

type FmtInt16 int16

func (f FmtInt16) Format(s fmt.State, verb rune) { fmt.Fprintf(s, "%d degrees", int16(f)) }

type FmtStr string

func (f FmtStr) Format(s fmt.State, verb rune) { fmt.Fprintf(s, "[redacted, %d bytes]", len(f)) }

type FmtBool bool

func (f FmtBool) Format(s fmt.State, verb rune) {
	if f {
		io.WriteString(s, "yes")
	} else {
		io.WriteString(s, "no")
	}
}

type FmtFloat float64

func (f FmtFloat) Format(s fmt.State, verb rune) { fmt.Fprintf(s, "%.1f%%", float64(f)) }

type FmtStruct struct{ A int }

func (f FmtStruct) Format(s fmt.State, verb rune) { fmt.Fprintf(s, "struct #%d", f.A) }

// Text is the documented text form of the item, written from the statement
// of C01: string is itself, rune is that character, String() else GoString()
// else Error(), nested cell gives the inner text, nil gives "", anything else
// is fmt's %v.  Which methods a generated type has is known from its
// construction, not discovered by a type switch.
func (s *ItemSpec) Text() string {
	return s.TextWith(nil)
}

// TextWith is Text for a typed item whose fields have been replaced by f.
func (s *ItemSpec) TextWith(f *Fields) string {
	switch s.K {
	case "nil":
		return ""
	case "str":
		return string(s.Str)
	case "rune":
		return string(rune(s.Num))
	case "err":
		return string(s.Str)
	case "nilsafe":
		return "<nil NilSafe>"
	case "cell":
		return s.Inner.Text()
	case "cellptr":
		return s.Inner.TextWith(f) // the cell pointed at follows its item (see Make)
	case "anonG", "anonPS", "anonSE", "tplhtml", "tpljs", "tplurl", "tplattr", "jsonnumber", "lookS", "lookSB", "lookW", "lookH", "cellcycle1", "cellcycle2", "twinnameStr", "fielder", "owneritem", "cellish", "bothmarshal", "textmarshal", "numlabel", "floatlabel", "fmterr", "fmtgo", "aroundcell", "aroundcellptr":
		return string(s.Str) // promoted GoString / String (String before Error); named string types read as their value
	case "aggslice", "aggstringer", "aggarrmap":
		// by-value aggregates which reach mutable state through an interior reference
		txt := string(s.Str)
		if f != nil {
			txt = f.S
		}
		switch s.K {
		case "aggslice":
			return fmt.Sprintf("%v", AggSlice{Name: "agg", Tags: []string{txt, "tag"}})
		case "aggstringer":
			return txt
		}
		return fmt.Sprintf("%v", [1]map[string]string{{"k": txt}})
	case "typed":
		ff := *s.F
		if f != nil {
			ff = *f
		}
		if s.hasMethods() {
			_, subset, _ := codeParts(s.Code)
			switch {
			case strings.Contains(subset, "S"):
				return ff.S
			case strings.Contains(subset, "G"):
				return ff.G
			case strings.Contains(subset, "E"):
				return ff.E
			}
		}
		it, _ := makeTyped(s.Code, ff, s.Ptr)
		return fmt.Sprintf("%v", it)
	}
	m := s.Make()
	return fmt.Sprintf("%v", m.Item)
}

// DeclH reports the height the item declares, if its dynamic type overrides height.
func (s *ItemSpec) DeclH() (int, bool) {
	if s.K == "typed" && s.hasMethods() {
		if _, _, ov := codeParts(s.Code); strings.Contains(ov, "H") {
			return s.F.HV, true
		}
	}
	return 0, false
}

// DeclW reports the width the item declares, if its dynamic type overrides width.
func (s *ItemSpec) DeclW() (int, bool) {
	if s.K == "typed" && s.hasMethods() {
		if _, _, ov := codeParts(s.Code); strings.Contains(ov, "W") {
			return s.F.WV, true
		}
	}
	return 0, false
}

// Overrides is true when the item declares its own size in any way; nested
// cells are their own family and never count as overriding.
func (s *ItemSpec) Overrides() bool {
	_, h := s.DeclH()
	_, w := s.DeclW()
	return h || w
}

// Describe is a short human-readable form.
func (s *ItemSpec) Describe() string {
	b, _ := json.Marshal(s)
	return string(b)
}

// ---------------------------------------------------------------------------
// generators

// TextItem draws an item whose text is drawn from fam: mostly plain strings,
// sometimes a Stringer/GoStringer/error-typed item with the same text, never
// size-overriding.
func (r *R) TextItem(fam Fam, maxAtoms int) ItemSpec {
	s := r.Str(fam, maxAtoms)
	return r.WrapText(s)
}

// TextItemSized is TextItem, except that one typed item in five also declares a size of its own - any size, and in
// particular the sizes that COINCIDE with something: the byte length of the text, its rune count, its display
// width, its number of lines, zero.  What a size-declaring item declares is a matter for layout; what a renderer
// escapes, quotes or encodes is the text.
func (r *R) TextItemSized(fam Fam, maxAtoms int, measure func(string) int) ItemSpec {
	it := r.TextItem(fam, maxAtoms)
	if it.K != "typed" || it.F == nil || it.Pre != nil || !strings.HasSuffix(it.Code, "_0") || !r.Chance(1, 5) {
		return it
	}
	txt := it.Text()
	code := strings.TrimSuffix(it.Code, "_0") + Pick(r, []string{"_W", "_HW", "_H", "_W", "_HW"})
	ok := false
	for _, c := range TypeCodes {
		if c == code {
			ok = true
		}
	}
	if !ok {
		return it
	}
	f := *it.F
	sizes := []int{len(txt), utf8.RuneCountInString(txt), measure(txt), 1 + strings.Count(txt, "\n"), 0, r.DeclSize(), len(txt) + 1}
	f.WV, f.HV = Pick(r, sizes), Pick(r, sizes)
	out := TypedItem(code, f, it.Ptr)
	return out
}

var textCodes = []string{"VS_0", "VG_0", "VE_0", "VSG_0", "VSGE_0", "PS_0", "PGE_0", "VSE_0"}

// WrapText returns an item whose documented text form is s.
func (r *R) WrapText(s string) ItemSpec {
	if ch, size := utf8.DecodeRuneInString(s); size > 0 && size == len(s) && ch != utf8.RuneError && r.Chance(1, 2) {
		// a one-character text stored as a rune item (a rune is that character)
		return ItemSpec{K: "rune", Num: int64(ch)}
	}
	switch r.Intn(10) {
	case 0, 1:
		code := Pick(r, textCodes)
		f := Fields{S: "<wrong S>", G: "<wrong G>", E: "<wrong E>"}
		_, subset, _ := codeParts(code)
		switch {
		case strings.Contains(subset, "S"):
			f.S = s
		case strings.Contains(subset, "G"):
			f.G = s
		default:
			f.E = s
		}
		recv, _, _ := codeParts(code)
		it := TypedItem(code, f, recv == 'P' || r.Bool())
		if it.Ptr && r.Chance(1, 3) {
			// starts life with another text and is mutated (+Update) to this one before the judged render
			other := r.Str(FAscii|FNewline|FWide, 4)
			if same := sameShape(s); same != s && r.Bool() {
				// the earlier text has the same line count and the same widths as the final one (letters and digits rotated)
				other = same
			}
			pre := Fields{S: other, G: other, E: other, HV: f.HV, WV: f.WV}
			it.Pre = &pre
			if r.Chance(1, 4) {
				// the other way round: the cell is made from the final state, and the item moves on afterwards
				it.Drift = true
				return it
			}
			if r.Chance(1, 5) {
				// the cell holds a POINTER TO A CELL of such an item: when the item changes, the cell pointed at is
				// brought up to date; the cell holding the pointer shows the new text once it is itself asked to update
				in := it
				return ItemSpec{K: "cellptr", Inner: &in, F: in.F}
			}
		}
		return it
	case 2:
		if r.Bool() {
			return ItemSpec{K: "err", Str: Q(s)}
		}
		if r.Chance(1, 6) {
			return ItemSpec{K: Pick(r, []string{"cellcycle1", "cellcycle2"}), Str: Q(s)}
		}
		in := StrItem(s)
		return ItemSpec{K: "cell", Inner: &in}
	case 3:
		// other carriers whose documented text form is s: named string types of other packages (html/template's
		// "trusted" strings, read as their value like any named string), a named string of this package, unnamed
		// struct types with a promoted GoString or String
		return ItemSpec{K: Pick(r, []string{"tplhtml", "tplhtml", "tpljs", "tplurl", "tplattr", "mystr", "anonG", "anonPS", "anonSE", "lookS", "lookSB", "lookW", "lookH", "twinnameStr", "twinnameStr", "fielder", "owneritem", "cellish", "bothmarshal", "textmarshal", "numlabel", "floatlabel", "fmterr", "fmtgo"}), Str: Q(s)}
	default:
		return StrItem(s)
	}
}

// sameShape returns a text of the same shape (same bytes except that ASCII letters and digits are rotated by one).
func sameShape(s string) string {
	b := []byte(s)
	for i, c := range b {
		switch {
		case c >= 'a' && c <= 'z':
			b[i] = 'a' + (c-'a'+1)%26
		case c >= 'A' && c <= 'Z':
			b[i] = 'A' + (c-'A'+1)%26
		case c >= '0' && c <= '9':
			b[i] = '0' + (c-'0'+1)%10
		}
	}
	return string(b)
}

// AnyItem draws from the whole zoo (used by C01 and, sparsely, by others).
func (r *R) AnyItem(fam Fam, maxAtoms, depth int) ItemSpec {
	switch r.Intn(24) {
	case 0:
		return ItemSpec{K: "nil"}
	case 1:
		runes := []int64{0, 'a', 'Z', ' ', '\n', 0x4e16, 0x301, 0x200b, 0x1F600, 0xD800, 0xDFFF, 0x10FFFF, 0x110000, -1, -65, 0x7fffffff, -0x80000000, 0xFFFD, '"', '<', '|'}
		return ItemSpec{K: "rune", Num: Pick(r, runes)}
	case 2:
		return ItemSpec{K: Pick(r, []string{"int", "int64", "uint8", "uint", "myint", "myrune", "int8", "int16", "uint16", "uint32", "uint64", "uintptr", "fmtuint", "fmtint16", "fmtbool", "fmtstruct", "array"}), Num: r.edgeOrSmall()}
	case 3:
		if r.Chance(1, 4) {
			return ItemSpec{K: Pick(r, []string{"nan", "inf"})} // formattable, but encoding/json refuses them
		}
		if r.Chance(1, 3) {
			return ItemSpec{K: Pick(r, []string{"negzero", "negzero32", "float32"}), Flt: Pick(r, []float64{0, 1.5, -2.25})}
		}
		if r.Bool() {
			return ItemSpec{K: Pick(r, []string{"float", "float", "float32"}), Flt: r.EdgeFloat()}
		}
		return ItemSpec{K: "float", Flt: Pick(r, []float64{0, 1.5, -2.25, 1e21, 1e-7, 3})}
	case 4:
		return ItemSpec{K: "bool", Num: int64(r.Intn(2))}
	case 5:
		return ItemSpec{K: Pick(r, []string{"mystr", "bytes", "err", "fmtstr", "aggslice", "aggstringer", "aggarrmap", "anonG", "anonPS", "anonSE", "tplhtml", "tpljs", "tplurl", "tplattr", "tplhtml", "jsonnumber", "ifacestruct", "ifacearr", "lookS", "lookSB", "lookW", "lookH", "lookNone", "cellcycle1", "cellcycle2", "twinnameStr", "twinnameNum", "twinnameBool", "fielder", "owneritem", "cellish", "bothmarshal", "textmarshal", "numlabel", "floatlabel", "boollabel", "durmicro", "labelslice", "durslice", "montharr", "errslice", "stringerstruct", "fmterr", "fmtgo", "aroundcell", "aroundcellptr", "marshalonly", "marshalenum"}), Str: Q(r.Str(fam, maxAtoms)), Num: int64(r.Intn(3))}
	case 6:
		return ItemSpec{K: Pick(r, []string{"slice", "map", "struct", "structptr", "complex", "complex64", "fmtfloat"}), Str: Q(r.Str(FAscii, 2)), Num: int64(r.Intn(9)), Flt: 1.5}
	case 7:
		return ItemSpec{K: "dur", Num: int64(r.Intn(1 << 40))}
	case 8:
		return ItemSpec{K: "nilsafe"}
	case 9, 10:
		if depth > 0 {
			in := r.AnyItem(fam, maxAtoms, depth-1)
			return ItemSpec{K: Pick(r, []string{"cell", "cellptr"}), Inner: &in}
		}
		return StrItem(r.Str(fam, maxAtoms))
	case 11, 12, 13, 14, 15, 16, 17:
		return r.TypedAny(fam, maxAtoms)
	default:
		return StrItem(r.Str(fam, maxAtoms))
	}
}

// TypedAny draws a generated-type item with independent texts in all three
// text fields and arbitrary (small) declared sizes.
func (r *R) TypedAny(fam Fam, maxAtoms int) ItemSpec {
	code := Pick(r, TypeCodes)
	f := r.FieldsAny(fam, maxAtoms)
	return TypedItem(code, f, r.Bool())
}

// FieldsAny draws field values; declared sizes lie in [-3,40].
func (r *R) FieldsAny(fam Fam, maxAtoms int) Fields {
	return Fields{S: r.Str(fam, maxAtoms), G: r.Str(fam, maxAtoms), E: r.Str(fam, maxAtoms), HV: r.DeclSize(), WV: r.DeclSize()}
}

// DeclSize draws a declared height/width from [-3,40], skewed small.
func (r *R) DeclSize() int {
	switch r.Intn(6) {
	case 0:
		return r.Range(-3, 0)
	case 1:
		return r.Range(10, 40)
	default:
		return r.Range(0, 6)
	}
}

// EdgeInt draws an integer: small ones most of the time, else one at or next to the end of some integer width.
func (r *R) EdgeInt() int64 {
	switch r.Intn(4) {
	case 0:
		k := uint(Pick(r, []int{7, 8, 15, 16, 24, 31, 32, 53, 62, 63}))
		v := int64(1)<<k + int64(r.Range(-2, 2))
		if k == 63 {
			v = math.MinInt64 + int64(r.Range(0, 2))
		}
		if r.Bool() && v != math.MinInt64 {
			v = -v
		}
		return v
	case 1:
		return Pick(r, []int64{math.MaxInt64, math.MinInt64, math.MaxInt64 - 1, math.MaxInt32, math.MinInt32, 1e15, 1e18, -1e18, 999999999999999999, int64(r.Intn(1<<30)) << uint(r.Intn(33))})
	}
	return int64(r.Range(-5, 1000))
}

// EdgeFloat draws a finite float64: whole and fractional numbers of every magnitude, in particular on both sides
// of where formats change (1e-6, 1e21), where integers stop being exact (2^53) and where integer types end (2^31, 2^63, 2^64).
func (r *R) EdgeFloat() float64 {
	var f float64
	switch r.Intn(6) {
	case 0:
		f = Pick(r, []float64{0, 1.5, -2.25, 1e21, 1e-7, 3, 1e20, 1e-6, 123456789, 0.1, 100, 1e15, 1e16, 1e17, 1e19, 9.999999999999999e20, 5e-324, math.MaxFloat64, math.MaxFloat32, math.SmallestNonzeroFloat32})
	case 1:
		k := Pick(r, []int{23, 24, 31, 32, 52, 53, 54, 62, 63, 64, 65, 69, 70, 100, 127, 128, 1023})
		f = math.Ldexp(1, k)
		switch r.Intn(3) {
		case 0:
			f = math.Nextafter(f, 0)
		case 1:
			f = math.Nextafter(f, math.Inf(1))
		}
	case 2:
		f = math.Pow(10, float64(r.Range(-12, 25)))
		if r.Bool() {
			f *= float64(r.Range(1, 999))
		}
	case 3:
		f = float64(r.EdgeInt())
	case 4:
		f = math.Float64frombits(uint64(r.Intn(1<<31))<<32 | uint64(r.Intn(1<<31))<<1 | uint64(r.Intn(2)))
		if math.IsNaN(f) || math.IsInf(f, 0) {
			f = 0.5
		}
	default:
		f = float64(r.Range(-1000, 1000)) / float64(Pick(r, []int{1, 2, 3, 7, 10, 1000}))
	}
	if r.Chance(1, 3) {
		f = -f
	}
	return f
}

func (r *R) edgeOrSmall() int64 {
	if r.Chance(1, 3) {
		return r.EdgeInt()
	}
	return int64(r.Range(-3, 120))
}

// Look-alikes: types with a method NAMED like one of the optional methods a cell looks for (String, GoString,
// Error, Height, TerminalCellWidth) but of another signature.  Such a method is none of the library's business:
// the item takes the next text method it really offers, or the default formatting, and declares no size.
type LookS struct{ V string }

func (l LookS) String(unit string) string { return "<wrong: String(unit)> " + unit }
func (l LookS) Error() string             { return l.V }

type LookSB struct{ V string }

func (l LookSB) String() []byte   { return []byte("<wrong: String() []byte>") }
func (l LookSB) GoString() string { return l.V }

type LookW struct{ V string }

func (l LookW) TerminalCellWidth(font string) int { return 99 }
func (l LookW) Height() float64                   { return 7.5 }
func (l LookW) String() string                    { return l.V }

type LookH struct{ V string }

func (l *LookH) Height(lineSpacing int) int { return 99 }
func (l *LookH) TerminalCellWidth() string  { return "wide" }
func (l *LookH) GoString() string           { return l.V }
func (l *LookH) Error() error               { return nil }

// LookNone has look-alikes only: it reads as the default formatting of its value.
type LookNone struct{ V string }

func (l LookNone) String(verbose bool) string { return "<wrong>" }
func (l LookNone) GoString() []byte           { return nil }
func (l LookNone) Error() error               { return nil }
func (l LookNone) Height() float64            { return 3 }

// Distinct types that PRINT alike: types declared locally in different functions may share a name, and
// reflect.Type.String() (or %T) gives "gen.Amount" for all three - a number, a string and a bool.  Two packages
// that are both called "model" or "v1" give a program the same situation.  A type is what reflect.Type (or a type
// switch) says it is, not what it is called.
func twinNameNum(n int64) interface{} {
	type Amount int64
	return Amount(n)
}

func twinNameStr(s string) interface{} {
	type Amount string
	return Amount(s)
}

func twinNameBool(b bool) interface{} {
	type Amount bool
	return Amount(b)
}

// Items that ALSO satisfy interfaces which have nothing to do with being an item: interfaces the library declares
// (Fielder and AnonFielder, which it has never consulted; PropertyOwner, PropertyCallback, ErrorSource and
// ErrorReceiver, which are about tables), the method names of Cell and Row, and pairs of encoding interfaces that
// disagree with each other.  An item is shown by its text form (or, in JSON, by what encoding/json makes of it)
// whatever else its type can do.
type FielderItem struct{ ID string }

func (f FielderItem) Fields() []string {
	return []string{"<wrong: field 1>", "<wrong: field 2>", "<wrong: field 3>"}
}
func (f FielderItem) AnonFields() []interface{} {
	return []interface{}{1, "<wrong: anon field>", nil, 4.5}
}
func (f FielderItem) String() string { return f.ID }

type OwnerItem struct{ ID string }

func (o OwnerItem) SetProperty(k, v interface{}) error    { return nil }
func (o OwnerItem) GetProperty(k interface{}) interface{} { return "<wrong: the item's own property>" }
func (o OwnerItem) UpdateProperties(tabular.PropertyOwner) error {
	return fmt.Errorf("<wrong: the item is not a callback>")
}
func (o OwnerItem) Errors() []error                               { return []error{fmt.Errorf("<wrong: the item's own errors>")} }
func (o OwnerItem) AddError(error)                                {}
func (o OwnerItem) AddErrorList([]error)                          {}
func (o OwnerItem) RegisterPropertyCallback(...interface{}) error { return nil }
func (o OwnerItem) GoString() string                              { return o.ID }

type CellishItem struct{ ID string }

func (c CellishItem) Item() interface{} { return "<wrong: Item()>" }
func (c CellishItem) Lines() []string   { return []string{"<wrong", "Lines()>"} }
func (c CellishItem) Update()           {}
func (c CellishItem) Empty() bool       { return true }
func (c CellishItem) Location() tabular.CellLocation {
	return tabular.CellLocation{Row: 99, Column: 99}
}
func (c CellishItem) Cells() []tabular.Cell { return nil }
func (c CellishItem) IsSeparator() bool     { return true }
func (c CellishItem) NColumns() int         { return 7 }
func (c CellishItem) Error() string         { return c.ID }

// BothMarshal implements json.Marshaler and encoding.TextMarshaler, and the two disagree: encoding/json prefers
// MarshalJSON (as for a non-nil *big.Int, which encodes as a number although its MarshalText gives digits in a string).
type BothMarshal struct{ ID string }

func (b BothMarshal) MarshalJSON() ([]byte, error) { return []byte(`{"from":"MarshalJSON"}`), nil }
func (b BothMarshal) MarshalText() ([]byte, error) { return []byte("<wrong: MarshalText>"), nil }
func (b BothMarshal) String() string               { return b.ID }

// TextOnlyMarshal implements encoding.TextMarshaler only: encoding/json encodes it as that text, in a string.
type TextOnlyMarshal struct{ ID string }

func (b TextOnlyMarshal) MarshalText() ([]byte, error) {
	return []byte("text form for encodings: " + b.ID), nil
}
func (b TextOnlyMarshal) String() string { return b.ID }

// Numbers with a text of their own: named types of integer, float and bool KIND whose text methods say something
// else than digits (a level, a unit, a label - wide characters, several lines).  The kind of an item says nothing
// about its text.  (The texts live in a registry, since a number has no room for one.)
type NumLabel int64

type FloatLabel float64

type BoolLabel bool

var numLabelTexts sync.Map

// labelID is the number standing for a text: the same for the same text in every build and every process (what the
// JSON encoder shows of such an item is the number), and small enough to be exact as a float64.
func labelID(s string) int64 {
	n := int64(Hash64("label", s) >> 14)
	numLabelTexts.Store(n, s)
	return n
}

func MakeNumLabel(s string) NumLabel { return NumLabel(labelID(s)) }

func MakeFloatLabel(s string) FloatLabel { return FloatLabel(labelID(s)) }

func labelText(n int64) string {
	if v, ok := numLabelTexts.Load(n); ok {
		return v.(string)
	}
	return ""
}

func (n NumLabel) String() string     { return labelText(int64(n)) }
func (f FloatLabel) GoString() string { return labelText(int64(f)) }
func (b BoolLabel) Error() string     { return "mäßig\nzweite Zeile 世界" }

// FmtErr is an error that ALSO implements fmt.Formatter (as the error types of several well-known packages do), with
// a %v form that differs from Error(): its documented text form is Error()'s result.
type FmtErr struct{ V string }

func (e FmtErr) Error() string { return e.V }
func (e FmtErr) Format(s fmt.State, verb rune) {
	fmt.Fprintf(s, "<wrong: Format(%c)> %s (with stack)", verb, e.V)
}

// FmtGo has GoString and Format.
type FmtGo struct{ V string }

func (e FmtGo) GoString() string              { return e.V }
func (e FmtGo) Format(s fmt.State, verb rune) { fmt.Fprintf(s, "<wrong: Format>") }

// MarshalOnly implements encoding.TextMarshaler and NONE of the text methods a cell looks for: its text form is
// the default formatting of the value ({3 4}), not what it marshals to.
type MarshalOnly struct{ X, Y int }

func (m MarshalOnly) MarshalText() ([]byte, error) {
	return []byte(fmt.Sprintf("<wrong: MarshalText> %d;%d", m.X, m.Y)), nil
}

// MarshalEnum is an enum-like number with MarshalText only.
type MarshalEnum int

func (m MarshalEnum) MarshalText() ([]byte, error) { return []byte("<wrong: MarshalText>"), nil }

// AroundCell is an application type built around the library's own Cell (embedded by value), with a text method of
// its own: it is an item like any other, shown by ITS String.
type AroundCell struct {
	tabular.Cell
	Label string
}

func (a AroundCell) String() string { return a.Label }

// AroundCellPtr embeds a *Cell and an error method next to it: the promoted String and this Error... String wins
// only if it is not ambiguous; here the type defines GoString itself and embeds nothing else, so String (promoted
// from the cell) comes first - the cell's text.
type AroundCellE struct {
	*tabular.Cell
	V string
}

func (a AroundCellE) String() string { return a.V }
