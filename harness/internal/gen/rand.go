// Package gen holds the deterministic generators shared by all checks:
// a PRNG wrapper, string alphabets, item specifications and table
// specifications.  Everything a generator produces is a plain JSON-able
// value (a "spec"), so that a failing case can be written to a replay file
// and rebuilt bit for bit.
package gen

import (
	"hash/fnv"
	"math/rand/v2"
)

// R is the PRNG handed to generators.  One R is derived per case from
// (seed, property salt, phase, index) so a case is reproducible from its
// coordinates alone, whatever the number of shards.
type R struct{ *rand.Rand }

// NewR derives the generator for one case.
func NewR(seed uint64, prop string, phase, index int) *R {
	h := fnv.New64a()
	h.Write([]byte(prop))
	salt := h.Sum64()
	a := seed*0x9E3779B97F4A7C15 ^ salt
	b := uint64(phase)<<48 ^ uint64(index)*0xD1342543DE82EF95 ^ 0x2545F4914F6CDD1D
	return &R{rand.New(rand.NewPCG(a, b))}
}

// Intn returns a value in [0,n).
func (r *R) Intn(n int) int {
	if n <= 0 {
		return 0
	}
	return r.IntN(n)
}

// Range returns a value in [lo,hi] inclusive.
func (r *R) Range(lo, hi int) int {
	if hi <= lo {
		return lo
	}
	return lo + r.IntN(hi-lo+1)
}

// Chance is true with probability num/den.
func (r *R) Chance(num, den int) bool { return r.IntN(den) < num }

// Bool is a fair coin.
func (r *R) Bool() bool { return r.IntN(2) == 0 }

// Pick returns one element of xs.
func Pick[T any](r *R, xs []T) T { return xs[r.IntN(len(xs))] }

// Small returns a small non-negative number skewed towards 0..max/2.
func (r *R) Small(max int) int {
	if max <= 0 {
		return 0
	}
	a, b := r.IntN(max+1), r.IntN(max+1)
	if a < b {
		return a
	}
	return b
}

// Hash64 hashes a byte string (used for distinct-case accounting).
func Hash64(parts ...string) uint64 {
	h := fnv.New64a()
	for _, p := range parts {
		h.Write([]byte(p))
		h.Write([]byte{0xff, 0x00, 0xfe})
	}
	return h.Sum64()
}
