package gen

import (
	"fmt"
	"go.pennock.tech/tabular"
	"go.pennock.tech/tabular/properties"
	"go.pennock.tech/tabular/properties/align"
	"strings"
)

// Row-building modes: every public route by which a row can join a table.
const (
	ModeAddRowItems   = iota // t.AddRowItems(items...)
	ModeNewRowAdd            // r := NewRow(); r.Add(..)...; t.AddRow(r)
	ModeAppendThenAdd        // r := t.AppendNewRow(); r.Add(..)...  (all cells arrive after attach)
	ModeSizedFor             // r := t.NewRowSizedFor(); r.Add...; t.AddRow(r)
	ModeSplit                // NewRowWithCapacity(0); Add first half; AddRow; Add rest
	NModes
)

// RowSpec is one body row or a separator.
type RowSpec struct {
	Sep   bool       `json:"sep,omitempty"`
	Items []ItemSpec `json:"items"`
	Mode  int        `json:"mode"`
}

// TableSpec is a logical table plus the order in which it is built.
type TableSpec struct {
	HasHeader bool       `json:"has_header"`
	Header    []ItemSpec `json:"header,omitempty"`
	HeaderAt  int        `json:"header_at"` // AddHeaders is issued before row op HeaderAt (len(Rows) = after all rows)
	// EarlierHeader, if not nil, is a header row set first (at the very beginning) and REPLACED by Header later:
	// AddHeaders may be called again.  If it was wider than everything that follows, the table may keep counting its
	// columns (C02 accepts both readings), so the column count of such a table is what the table itself says, within
	// those bounds (see NCols).
	EarlierHeader []ItemSpec `json:"earlier_header_replaced_later,omitempty"`
	colsSeen      int
	Rows          []RowSpec `json:"rows"`
	// Props are properties set on the finished table which mean something to ANOTHER renderer than the one under
	// test, or to nobody (application keys): the renderer under test must not be influenced by them.
	Props []PropSpec `json:"other_properties,omitempty"`
	// Bystanders are callbacks that do nothing, registered on the table or on column 0 before the first row
	// operation: nothing a renderer does may depend on whether somebody else listens.
	Bystanders []CbSpec `json:"do_nothing_callbacks,omitempty"`
	// AppErrors is the number of errors the application itself recorded on the finished table (t.AddError): the
	// error list is for the application to inspect; what a renderer writes does not depend on it.
	AppErrors int `json:"errors_recorded_by_the_application,omitempty"`
}

// CbSpec is one RegisterPropertyCallback call with a callback that does nothing.
type CbSpec struct {
	OnColumn0 bool `json:"on_column_0,omitempty"`                 // else on the table
	Time      int  `json:"time"`                                  // 0 add, 1 pre-cell, 2 render, 3 post-cell
	Target    int  `json:"target"`                                // 0 itself, 1 cell, 2 row
	Fails     bool `json:"returns_an_error_every_time,omitempty"` // a validator: its findings go to the table's error list, and the render goes on
}

type failingCallback struct{ n *int }

func (c failingCallback) UpdateProperties(tabular.PropertyOwner) error {
	*c.n++
	return fmt.Errorf("finding %d of a validating callback the application registered", *c.n)
}

type noopCallback struct{ n *int }

func (c noopCallback) UpdateProperties(tabular.PropertyOwner) error { *c.n++; return nil }

func sliceOf[T any](xs ...T) []T { return xs }

var (
	cbTimes   = sliceOf(tabular.CB_AT_ADD, tabular.CB_AT_RENDER_PRECELL, tabular.CB_AT_RENDER, tabular.CB_AT_RENDER_POSTCELL)
	cbTargets = sliceOf(tabular.CB_ON_ITSELF, tabular.CB_ON_CELL, tabular.CB_ON_ROW)
)

func (s *TableSpec) registerBystanders(t tabular.Table) {
	for _, b := range s.Bystanders {
		var owner tabular.PropertyOwner = t
		if b.OnColumn0 {
			owner = t.Column(0)
		}
		if b.Fails {
			t.RegisterPropertyCallback(owner, cbTimes[b.Time%len(cbTimes)], cbTargets[b.Target%len(cbTargets)], failingCallback{new(int)})
			continue
		}
		t.RegisterPropertyCallback(owner, cbTimes[b.Time%len(cbTimes)], cbTargets[b.Target%len(cbTargets)], noopCallback{new(int)})
	}
}

// PropSpec is one SetProperty call made once the table is complete.
type PropSpec struct {
	Owner string `json:"owner"` // table, column, row, cell
	Col   int    `json:"col,omitempty"`
	Row   int    `json:"row,omitempty"`
	Cell  int    `json:"cell,omitempty"`
	Key   string `json:"key"`
	Val   string `json:"value"`
}

// Which library-defined properties may be sprinkled: a check passes the ones its renderer is documented NOT to read.
const (
	NoiseSkipable         = 1 << iota // properties.Skipable (documented for JSON only)
	NoiseAlign                        // align.PropertyType (documented for text tables and Markdown only)
	NoiseCallbacks                    // callbacks that do nothing, on the table or column 0
	NoiseFailingCallbacks             // render-time callbacks that return an error on every call (validators): the errors are the error list's business, the render is not refused
	NoiseAlignElsewhere               // align.PropertyType with alignment values on the table, on rows and on cells: anywhere but on columns
)

func (p *PropSpec) key() interface{} {
	switch p.Key {
	case "properties.Skipable":
		return properties.Skipable
	case "align.PropertyType":
		return align.PropertyType
	case "int 0":
		return 0
	}
	return p.Key // an application's own string key
}

func (p *PropSpec) val() interface{} {
	switch p.Val {
	case "true":
		return true
	case "false":
		return false
	case "align.Left":
		return align.Left
	case "align.Center":
		return align.Center
	case "align.Right":
		return align.Right
	}
	return p.Val
}

func (b *Built) applyProps() {
	if b.spec == nil {
		return
	}
	for i := 0; i < b.spec.AppErrors; i++ {
		b.T.AddError(fmt.Errorf("error %d recorded by the application itself", i+1))
	}
	for i := range b.spec.Props {
		p := &b.spec.Props[i]
		switch p.Owner {
		case "table":
			b.T.SetProperty(p.key(), p.val())
		case "column":
			if p.Col <= b.T.NColumns() {
				if p.Key == "column.Name" {
					// the column's exported Name field: bookkeeping of the core model which no renderer is documented to read
					b.T.Column(p.Col).Name = p.Val
					continue
				}
				b.T.Column(p.Col).SetProperty(p.key(), p.val())
			}
		case "row":
			if p.Row < len(b.Rows) {
				b.Rows[p.Row].SetProperty(p.key(), p.val())
			}
		case "cell":
			if p.Row < len(b.Rows) {
				if cs := b.Rows[p.Row].Cells(); p.Cell < len(cs) {
					(&cs[p.Cell]).SetProperty(p.key(), p.val())
				}
			}
		}
	}
}

// Built is a real table built from a spec, with the handles kept.
type Built struct {
	T      tabular.Table
	Rows   []*tabular.Row // one per RowSpec (separators included, taken from AllRows)
	Header []Made
	Cells  [][]Made
	spec   *TableSpec
	shared map[string]*Made
}

// makeItem makes the item for one cell.  Items marked as sharing their object get the one object, set to this
// item's fields just before the cell is made (rec := &T{}; for ... { rec.x = ...; t.AddRowItems(i, rec) }).
func (b *Built) makeItem(s *ItemSpec) Made {
	if s.Share == "" || s.K != "typed" || !s.Ptr || s.F == nil {
		return s.Make()
	}
	if b.shared == nil {
		b.shared = map[string]*Made{}
	}
	if m, ok := b.shared[s.Share]; ok && m.Mutate != nil {
		m.Mutate(*s.F)
		return Made{Item: m.Item, Mutate: m.Mutate, spec: s}
	}
	m := s.Make()
	b.shared[s.Share] = &m
	return m
}

// Build replays the spec's construction history on t (which must be empty)
// and brings every item to its final state.
func (s *TableSpec) Build(t tabular.Table) *Built {
	b := s.BuildStaged(t, -1, nil)
	b.Finalize()
	return b
}

// Finalize mutates every item that was created in a pre-mutation state to its
// final fields and updates the cell holding it (the documented way to make a
// cell re-read a mutated item).
func (b *Built) Finalize() {
	for j := range b.Header {
		if b.Header[j].NeedsFinalize() {
			b.Header[j].Mutate(*b.Header[j].Spec().F)
			hs := b.T.Headers()
			(&hs[j]).Update()
		}
	}
	rows := b.T.AllRows()
	for i := range b.Cells {
		for j := range b.Cells[i] {
			if b.Cells[i][j].NeedsFinalize() {
				b.Cells[i][j].Mutate(*b.Cells[i][j].Spec().F)
				cs := rows[i].Cells()
				(&cs[j]).Update()
			}
		}
	}
	b.Rows = rows
	b.drift()
	b.applyProps()
}

// drift lets the items marked so move on to other fields now that their cells exist; nobody tells the cells.
func (b *Built) drift() {
	for j := range b.Header {
		if b.Header[j].Drifts() {
			b.Header[j].Mutate(*b.Header[j].Spec().Pre)
		}
	}
	for i := range b.Cells {
		for j := range b.Cells[i] {
			if b.Cells[i][j].Drifts() {
				b.Cells[i][j].Mutate(*b.Cells[i][j].Spec().Pre)
			}
		}
	}
}

// FinalizeFromCallbacks does what Finalize does, but from inside the render: the application registers a
// table-level, cell-targeted pre-cell render callback, which brings the item of the cell it is handed to its final
// state and asks that cell to Update - the documented way of refreshing a cell, done at the documented time for
// preparing a render (pre-cell callbacks run before the render callbacks that measure a cell).  The
// next render therefore has to show the final texts.  Idempotent: every later pass finds nothing left to do.
func (b *Built) FinalizeFromCallbacks() {
	doneH := make([]bool, len(b.Header))
	doneC := make([][]bool, len(b.Cells))
	for i := range b.Cells {
		doneC[i] = make([]bool, len(b.Cells[i]))
	}
	cb := refresher(func(o tabular.PropertyOwner) error {
		cell, ok := o.(*tabular.Cell)
		if !ok {
			return nil
		}
		loc := cell.Location()
		var m *Made
		var done *bool
		switch {
		case loc.Row == 0 && loc.Column >= 1 && loc.Column <= len(b.Header):
			m, done = &b.Header[loc.Column-1], &doneH[loc.Column-1]
		case loc.Row >= 1 && loc.Row <= len(b.Cells) && loc.Column >= 1 && loc.Column <= len(b.Cells[loc.Row-1]):
			m, done = &b.Cells[loc.Row-1][loc.Column-1], &doneC[loc.Row-1][loc.Column-1]
		default:
			return nil
		}
		if *done || !m.NeedsFinalize() {
			return nil
		}
		*done = true
		m.Mutate(*m.Spec().F)
		cell.Update()
		return nil
	})
	b.T.RegisterPropertyCallback(b.T, tabular.CB_AT_RENDER_PRECELL, tabular.CB_ON_CELL, cb)
	b.Rows = b.T.AllRows()
	b.drift()
	b.applyProps()
}

type refresher func(tabular.PropertyOwner) error

func (f refresher) UpdateProperties(o tabular.PropertyOwner) error { return f(o) }

// BuildStaged replays the construction history; after `at` row operations
// (0..len(Rows); negative = never) it calls mid, typically a first render of the
// partial table through a wrapper that is used again later.  Items are left in their
// pre-mutation state: call Finalize before the judged render.
func (s *TableSpec) BuildStaged(t tabular.Table, at int, mid func()) *Built {
	return s.BuildStagedN(t, []int{at}, mid)
}

// BuildStagedN is BuildStaged with several intermediate points (mid is called at each of them, in build order).
func (s *TableSpec) BuildStagedN(t tabular.Table, ats []int, mid func()) *Built {
	isAt := func(i int) bool {
		for _, a := range ats {
			if a == i {
				return true
			}
		}
		return false
	}
	at := -1
	for _, a := range ats {
		if a >= len(s.Rows) {
			at = a
		}
	}
	b := &Built{T: t, Cells: make([][]Made, len(s.Rows)), spec: s}
	s.registerBystanders(t)
	s.colsSeen = 0
	if s.EarlierHeader != nil {
		items := make([]interface{}, len(s.EarlierHeader))
		for i := range s.EarlierHeader {
			items[i] = s.EarlierHeader[i].Make().Item
		}
		t.AddHeaders(items...)
		defer func() {
			// the table's own count decides between "columns are never lost" and "the count follows the live widths"
			live := s.liveCols()
			if n := t.NColumns(); n > live && n <= len(s.EarlierHeader) {
				s.colsSeen = n
			}
		}()
	}
	hdr := func() {
		if !s.HasHeader {
			return
		}
		items := make([]interface{}, len(s.Header))
		b.Header = make([]Made, len(s.Header))
		for i := range s.Header {
			b.Header[i] = b.makeItem(&s.Header[i])
			items[i] = b.Header[i].Item
		}
		t.AddHeaders(items...)
	}
	for i := range s.Rows {
		if isAt(i) && mid != nil {
			mid()
		}
		if s.HeaderAt == i {
			hdr()
		}
		rs := &s.Rows[i]
		if rs.Sep {
			t.AddSeparator()
			continue
		}
		made := make([]Made, len(rs.Items))
		items := make([]interface{}, len(rs.Items))
		for j := range rs.Items {
			made[j] = b.makeItem(&rs.Items[j])
			items[j] = made[j].Item
		}
		b.Cells[i] = made
		switch rs.Mode {
		case ModeAddRowItems:
			t.AddRowItems(items...)
		case ModeNewRowAdd:
			r := tabular.NewRow()
			for _, it := range items {
				r.Add(tabular.NewCell(it))
			}
			t.AddRow(r)
		case ModeAppendThenAdd:
			r := t.AppendNewRow()
			for _, it := range items {
				r.Add(tabular.NewCell(it))
			}
		case ModeSizedFor:
			r := t.NewRowSizedFor()
			for _, it := range items {
				r.Add(tabular.NewCell(it))
			}
			t.AddRow(r)
		case ModeSplit:
			r := tabular.NewRowWithCapacity(0)
			h := len(items) / 2
			for _, it := range items[:h] {
				r.Add(tabular.NewCell(it))
			}
			t.AddRow(r)
			for _, it := range items[h:] {
				r.Add(tabular.NewCell(it))
			}
		default:
			panic("gen: bad row mode")
		}
	}
	if at == len(s.Rows) && mid != nil && s.HeaderAt >= len(s.Rows) {
		// a render of the table before its (late) header is set
		mid()
		mid = nil
	}
	if s.HeaderAt >= len(s.Rows) {
		hdr()
	}
	if at >= len(s.Rows) && mid != nil {
		mid()
	}
	b.Rows = t.AllRows()
	return b
}

// NCols is the column count the statements define: the largest number of
// cells in the header or in any row.
func (s *TableSpec) NCols() int {
	if s.colsSeen > 0 {
		return s.colsSeen
	}
	return s.liveCols()
}

// liveCols is the largest number of cells in the final header or in any row.
func (s *TableSpec) liveCols() int {
	n := 0
	if s.HasHeader && len(s.Header) > n {
		n = len(s.Header)
	}
	for i := range s.Rows {
		if !s.Rows[i].Sep && len(s.Rows[i].Items) > n {
			n = len(s.Rows[i].Items)
		}
	}
	return n
}

// NBody is the number of non-separator rows.
func (s *TableSpec) NBody() int {
	n := 0
	for i := range s.Rows {
		if !s.Rows[i].Sep {
			n++
		}
	}
	return n
}

// HeaderTexts returns the expected header texts (nil when there is no header).
func (s *TableSpec) HeaderTexts() []string {
	if !s.HasHeader {
		return nil
	}
	out := make([]string, len(s.Header))
	for i := range s.Header {
		out[i] = s.Header[i].Text()
	}
	return out
}

// RowTexts returns the expected texts of row i (nil for a separator).
func (s *TableSpec) RowTexts(i int) []string {
	if s.Rows[i].Sep {
		return nil
	}
	out := make([]string, len(s.Rows[i].Items))
	for j := range s.Rows[i].Items {
		out[j] = s.Rows[i].Items[j].Text()
	}
	return out
}

// Shape summarises the structural features of a spec (for distinct-case
// accounting and evidence): it is not the content.
func (s *TableSpec) Shape() string {
	b := make([]byte, 0, 32)
	if s.HasHeader {
		b = append(b, 'H', byte('0'+len(s.Header)%10), '@', byte('0'+s.HeaderAt%10))
	} else {
		b = append(b, 'h')
	}
	for i := range s.Rows {
		if s.Rows[i].Sep {
			b = append(b, '-')
		} else {
			b = append(b, byte('0'+len(s.Rows[i].Items)%10), byte('a'+s.Rows[i].Mode))
		}
	}
	return string(b)
}

// TableOpts bounds the random table generator.
type TableOpts struct {
	MaxCols, MaxRows int
	Header           int // 0 random, 1 always, 2 never
	ZeroHeaderOK     bool
	MinCols          int                        // 0 allows a table with no columns
	Item             func(r *R) ItemSpec        // body and header item generator
	HeaderItem       func(r *R, c int) ItemSpec // optional override for header items
	NoPostAttach     bool                       // restrict to modes that finish the row before attaching it
	NoScale          bool                       // never draw the occasional very wide / very long table
	Noise            int                        // NoiseSkipable|NoiseAlign: properties of other renderers that may be set on a third of the tables
}

// twins are pairs of different texts that a lossy key would take for the same text: equal 32-bit sums (FNV-1a,
// FNV-1, CRC-32) at equal byte length but different display width; canonically equivalent spellings; texts that
// differ only in case, in a trailing space, after a long common prefix, or in the middle.  Now and then both
// members of a pair are planted into one table: whatever the library remembers about one text must not be used
// for the other.
var twins = [][2]string{
	{"aaamra", "\u55ff\u55de"}, {"aaamrb", "\u55ff\u55dd"}, // FNV-1a 32
	{"aabiba", "\u5686\u564f"}, {"aabibb", "\u5686\u564c"}, // FNV-1 32
	{"cdaeha", "\u561b\u4eb8"}, {"cdaehb", "\u561b\u4ebb"}, // CRC-32 (IEEE)
	{"Denver", "\u80d9\u53bb"}, {"London", "\u4f51\u7a2b"}, // FNV-1a 32
	{"\u00e9", "e\u0301"}, {"\u00c5ngstr\u00f6m", "A\u030angstro\u0308m"},
	{"abc", "ABC"}, {"x", "x "}, {"x", " x"}, {"a--b", "a++b"},
	{"aaaaaaaaaaaaaaaaaaaaaaaaaaaaaaaaaaaaaaaaaaaaaaaaaaaaaaaaaaaaaaaa1", "aaaaaaaaaaaaaaaaaaaaaaaaaaaaaaaaaaaaaaaaaaaaaaaaaaaaaaaaaaaaaaaa2"},
	{"same first line\nsecond", "same first line\nother second line"},
}

var sharedStorage = "0123456789abcdef0123-a text other texts are cut from"

var scaleSizes = []int{17, 33, 64, 65, 66, 70, 129, 130, 257, 300}

// Table draws a random table spec.
func (r *R) Table(o TableOpts) TableSpec {
	var s TableSpec
	ncols := r.Range(1, o.MaxCols)
	if o.MinCols == 0 && r.Chance(1, 40) {
		ncols = 0
	}
	nrows := r.Range(0, o.MaxRows)
	if r.Chance(1, 3) {
		nrows = r.Range(0, 3)
	}
	// scale: now and then a table far wider or far longer than any fixed-size bookkeeping (bit sets of 64,
	// byte-sized counters, small arrays) a renderer might keep per column or per row
	if !o.NoScale && ncols > 0 {
		switch r.Intn(160) {
		case 0:
			ncols, nrows = Pick(r, scaleSizes), r.Range(1, 3)
		case 1:
			ncols, nrows = r.Range(1, 3), Pick(r, scaleSizes)
		}
	}
	switch o.Header {
	case 1:
		s.HasHeader = true
	case 2:
		s.HasHeader = false
	default:
		s.HasHeader = r.Chance(2, 3)
	}
	rect := r.Chance(1, 3) // some tables fully rectangular
	for i := 0; i < nrows; i++ {
		if r.Chance(1, 6) {
			s.Rows = append(s.Rows, RowSpec{Sep: true})
			continue
		}
		n := ncols
		if !rect {
			switch r.Intn(6) {
			case 0:
				n = 0
			case 1, 2:
				n = r.Range(0, ncols)
			}
		}
		rs := RowSpec{Items: make([]ItemSpec, n)}
		for j := 0; j < n; j++ {
			rs.Items[j] = o.Item(r)
		}
		switch r.Intn(8) {
		case 0:
			rs.Mode = ModeNewRowAdd
		case 1:
			rs.Mode = ModeSizedFor
		case 2:
			rs.Mode = ModeAppendThenAdd
		case 3:
			rs.Mode = ModeSplit
		default:
			rs.Mode = ModeAddRowItems
		}
		if o.NoPostAttach && (rs.Mode == ModeAppendThenAdd || rs.Mode == ModeSplit) {
			rs.Mode = ModeNewRowAdd
		}
		s.Rows = append(s.Rows, rs)
	}
	if s.HasHeader {
		n := ncols
		if !rect {
			switch r.Intn(8) {
			case 0:
				if o.ZeroHeaderOK {
					n = 0
				}
			case 1:
				n = r.Range(1, ncols)
			case 2:
				n = ncols + r.Range(0, 2)
			}
		}
		s.Header = make([]ItemSpec, n)
		for j := 0; j < n; j++ {
			if o.HeaderItem != nil {
				s.Header[j] = o.HeaderItem(r, j)
			} else {
				s.Header[j] = o.Item(r)
			}
		}
		switch r.Intn(4) {
		case 0:
			s.HeaderAt = len(s.Rows)
		case 1:
			s.HeaderAt = r.Range(0, len(s.Rows))
		default:
			s.HeaderAt = 0
		}
	}
	if s.HasHeader && !o.NoScale && r.Chance(1, 10) {
		// the header row is set twice: an earlier one (shorter, equal or wider than what follows) is replaced
		k := r.Range(0, ncols+2)
		s.EarlierHeader = make([]ItemSpec, k)
		for j := range s.EarlierHeader {
			if o.HeaderItem != nil {
				s.EarlierHeader[j] = o.HeaderItem(r, j)
			} else {
				s.EarlierHeader[j] = o.Item(r)
			}
		}
	}
	if o.MinCols > 0 && s.NCols() < o.MinCols {
		// force at least one cell somewhere
		it := o.Item(r)
		if s.HasHeader && r.Bool() {
			s.Header = append(s.Header, it)
		} else {
			s.Rows = append(s.Rows, RowSpec{Items: []ItemSpec{it}})
		}
	}
	if r.Chance(1, 5) {
		r.echo(&s)
	}
	if !o.NoScale && r.Chance(1, 25) {
		// plant a pair of twins into two cells of the table (header cells included)
		var slots []*ItemSpec
		for j := range s.Header {
			slots = append(slots, &s.Header[j])
		}
		for i := range s.Rows {
			for j := range s.Rows[i].Items {
				slots = append(slots, &s.Rows[i].Items[j])
			}
		}
		if len(slots) >= 2 {
			tw := Pick(r, twins)
			if r.Chance(1, 4) {
				// two different texts that begin at the same ADDRESS: one is a leading slice of the other's storage
				// (commit[:7] next to commit, a directory next to the full path)
				tw = [2]string{sharedStorage, sharedStorage[:r.Range(1, len(sharedStorage)-1)]}
			}
			a := r.Intn(len(slots))
			b := (a + 1 + r.Intn(len(slots)-1)) % len(slots)
			*slots[a], *slots[b] = StrItem(tw[0]), StrItem(tw[1])
		}
	}
	if o.Noise&(NoiseSkipable|NoiseAlign|NoiseAlignElsewhere) != 0 && r.Chance(1, 3) {
		s.Props = r.noise(&s, o.Noise)
	}
	if o.Noise != 0 && r.Chance(1, 6) {
		s.AppErrors = r.Range(1, 3)
	}
	if o.Noise&NoiseCallbacks != 0 && r.Chance(1, 4) {
		for n := r.Range(1, 3); n > 0; n-- {
			b := CbSpec{OnColumn0: r.Bool(), Time: r.Intn(4), Target: r.Intn(3)}
			if b.OnColumn0 && b.Target == 2 {
				b.Target = 1 // columns take cell and itself targets only
			}
			s.Bystanders = append(s.Bystanders, b)
		}
	}
	if o.Noise&NoiseFailingCallbacks != 0 && r.Chance(1, 5) {
		b := CbSpec{OnColumn0: r.Bool(), Time: r.Range(1, 3), Target: r.Intn(3), Fails: true}
		if b.OnColumn0 && b.Target == 2 {
			b.Target = 1
		}
		s.Bystanders = append(s.Bystanders, b)
	}
	return s
}

// longTexts are values of the kind real tables repeat down a column: longer than any small-string threshold.
var longTexts = []string{
	"connection refused", "3f2a9c1d7e4b5a6f8091a2b3c4d5e6f708192a3b", "1600 Pennsylvania Avenue NW, Washington, DC 20500",
	"/usr/local/share/doc/tabular/README.md", "2026-10-04T02:15:46.123456789Z", "the quick brown fox jumps over the lazy dog",
	"xxxxxxxxxxxxxxxxxxxxxxxxxxxxxxxxxxxxxxxxxxxxxxxxxxxxxxxxxxxxxxxx", "\u4e16\u754c\u4e16\u754c\u4e16\u754c\u4e16\u754c\u4e16\u754c\u4e16\u754c",
	"He said \"hello, world\" | and left <b>&amp;</b> behind", "not available (see the note below the table)",
}

// echo makes cells of one table RELATED: the value of one cell turns up again in others - most often further down
// the same column, the way a status, an address or a commit id repeats in real tables - as the very same item, as
// an equal text held by a plain string, or (where the value declares a display width) as the same text declaring
// another width.  Half of the time the value is first made a long one.  Independent draws practically never
// repeat anything longer than a couple of bytes; whatever a renderer remembers about one cell must hold for
// that cell only.
func (r *R) echo(s *TableSpec) {
	type slot struct {
		it  *ItemSpec
		col int
		row int
	}
	var slots []slot
	for j := range s.Header {
		slots = append(slots, slot{&s.Header[j], j, -1})
	}
	for i := range s.Rows {
		for j := range s.Rows[i].Items {
			slots = append(slots, slot{&s.Rows[i].Items[j], j, i})
		}
	}
	if len(slots) < 2 {
		return
	}
	declares := false
	for _, sl := range slots {
		if _, ok := sl.it.DeclW(); ok {
			declares = true
		}
	}
	a := slots[r.Intn(len(slots))]
	if r.Bool() {
		long := Pick(r, longTexts)
		switch {
		case a.it.K == "str":
			if r.Chance(1, 3) {
				long = string(a.it.Str) + " " + long // keeps whatever hostile characters the cell had
			}
			*a.it = StrItem(long)
		case a.it.K == "typed" && a.it.F != nil && !strings.Contains(a.it.F.S, "\n"):
			f := *a.it.F
			f.S, f.G, f.E = long, long, long
			a.it.F = &f
		}
	}
	if r.Chance(1, 3) {
		// ONE object in several cells of different rows, each cell made when the object read something else
		if a.it.K == "str" {
			t := string(a.it.Str)
			*a.it = TypedItem("PS_0", Fields{S: t, G: "<wrong G>", E: "<wrong E>"}, true)
		}
		if a.it.K == "typed" && a.it.Ptr && a.it.Pre == nil && a.it.F != nil {
			key := fmt.Sprintf("object %d", r.Intn(1000))
			n := 0
			usedRows := map[int]bool{a.row: true} // one cell per row: the items of a row are all made before its cells are
			for _, sl := range slots {
				if usedRows[sl.row] || sl.it.Share != "" || !r.Chance(1, 2) {
					continue
				}
				usedRows[sl.row] = true
				f := *a.it.F
				txt := sl.it.Text()
				f.S, f.G, f.E = txt, txt, txt
				*sl.it = ItemSpec{K: "typed", Code: a.it.Code, F: &f, Ptr: true, Share: key}
				n++
			}
			if n > 0 {
				a.it.Share = key
			}
			return
		}
	}
	for n := r.Range(1, 4); n > 0; n-- {
		var cand []slot
		for _, sl := range slots {
			if sl.it != a.it && (sl.col == a.col) {
				cand = append(cand, sl)
			}
		}
		if len(cand) == 0 || r.Chance(1, 3) {
			cand = cand[:0]
			for _, sl := range slots {
				if sl.it != a.it {
					cand = append(cand, sl)
				}
			}
		}
		b := cand[r.Intn(len(cand))]
		cp := *a.it
		if cp.F != nil {
			f := *cp.F
			cp.F = &f
		}
		switch r.Intn(4) {
		case 0:
			// an equal text held by a plain string
			cp = StrItem(a.it.Text())
		case 1:
			// the same text, declaring another width (or declaring one where the original declares none)
			if cp.K == "typed" && cp.F != nil {
				if _, ok := cp.DeclW(); ok {
					cp.F.WV = r.DeclSize()
				}
			} else if declares && cp.K == "str" && !strings.Contains(string(cp.Str), "\n") {
				t := string(cp.Str)
				cp = TypedItem("VS_W", Fields{S: t, G: t, E: t, WV: r.DeclSize()}, false)
			}
		}
		*b.it = cp
	}
}

// noise draws 1-3 properties that belong to another renderer, or to nobody.
func (r *R) noise(s *TableSpec, which int) []PropSpec {
	type kv struct {
		k, v      string
		elsewhere bool
	}
	var pool []kv
	if which&NoiseAlignElsewhere != 0 {
		// the alignment key with genuine alignment values, but on owners where no statement gives it a meaning:
		// the table, a row, a cell (columns are where alignment lives)
		pool = append(pool, kv{"align.PropertyType", "align.Right", true}, kv{"align.PropertyType", "align.Center", true}, kv{"align.PropertyType", "align.Right", true}, kv{"align.PropertyType", "align.Left", true})
	}
	if which&NoiseSkipable != 0 {
		pool = append(pool, kv{k: "properties.Skipable", v: "true"}, kv{k: "properties.Skipable", v: "true"}, kv{k: "properties.Skipable", v: "true"}, kv{k: "properties.Skipable", v: "false"})
	}
	if which&NoiseAlign != 0 {
		pool = append(pool, kv{k: "align.PropertyType", v: "align.Left"}, kv{k: "align.PropertyType", v: "align.Center"}, kv{k: "align.PropertyType", v: "align.Right"}, kv{k: "align.PropertyType", v: "align.Right"})
	}
	pool = append(pool, kv{k: "skipable", v: "true"}, kv{k: "type", v: "align.Right"}, kv{k: "int 0", v: "whatever"}, kv{k: "column.Name", v: "a name given to the column"})
	ncols := s.NCols()
	var out []PropSpec
	for n := r.Range(1, 3); n > 0; n-- {
		c := pool[r.Intn(len(pool))]
		p := PropSpec{Key: c.k, Val: c.v, Owner: "column"}
		if c.k == "column.Name" {
			p.Col = r.Range(0, ncols)
			out = append(out, p)
			continue
		}
		sel := r.Intn(10)
		if c.elsewhere {
			sel %= 3
		}
		switch sel {
		case 0:
			p.Owner = "table"
		case 1:
			p.Owner = "row"
			p.Row = r.Intn(len(s.Rows) + 1)
		case 2:
			p.Owner = "cell"
			p.Row = r.Intn(len(s.Rows) + 1)
			p.Cell = r.Intn(ncols + 1)
		default:
			if r.Bool() && ncols > 0 {
				p.Col = r.Range(1, ncols) // column 0 (kept when this branch is not taken) is the table-wide default
			}
		}
		out = append(out, p)
	}
	return out
}
