// Package ev is the verdict and evidence plumbing: per-shard recorders,
// violation/replay files, the known-findings matcher and the evidence writer.
package ev

import (
	"bufio"
	"encoding/binary"
	"encoding/json"
	"fmt"
	"os"
	"path/filepath"
	"sort"
	"strconv"
	"strings"
	"sync"
	"sync/atomic"
)

// Violation is one refuting observation.
type Violation struct {
	Prop    string      `json:"property"`
	Key     string      `json:"key"` // narrow signature: call site / input class, matched against KNOWN_FINDINGS.txt
	Msg     string      `json:"message"`
	Also    string      `json:"also,omitempty"`
	Tier    string      `json:"tier"`
	Seed    uint64      `json:"seed"`
	Phase   int         `json:"phase"`
	Index   int         `json:"index"`
	Case    interface{} `json:"case,omitempty"`
	Stack   string      `json:"stack,omitempty"`
	Replay  string      `json:"replay_path,omitempty"`
	Env     string      `json:"environment,omitempty"`         // process-wide setting in force when the case ran (replay restores it)
	ProcEnv string      `json:"process_environment,omitempty"` // environment variables the shard process was started with beyond the caller's (space separated KEY=VALUE; replay restarts itself with them)
}

// ShardResult is what one child process reports.
type ShardResult struct {
	Prop         string            `json:"property"`
	Shard        int               `json:"shard"`
	Evaluations  int64             `json:"evaluations"`
	Counters     map[string]int64  `json:"counters"`
	Samples      []interface{}     `json:"samples"`
	Violations   []Violation       `json:"violations"`
	Known        map[string]int64  `json:"known"`         // known-finding key -> occurrences
	KnownExample map[string]string `json:"known_example"` // key -> message
	Inconclusive []string          `json:"inconclusive"`
	Done         bool              `json:"done"`
}

// Recorder accumulates one shard's observations.  It is safe for concurrent
// use (the concurrency checks record from many goroutines).
type Recorder struct {
	mu       sync.Mutex
	res      ShardResult
	hashes   map[uint64]struct{}
	known    map[string]string // key -> description, for this property
	maxViol  int
	maxSamp  int
	Tier     string
	Seed     uint64
	curPhase int
	curIndex int
	dir      string
	env      string
}

// SetEnv names the process-wide setting now in force; it is stamped on later violations (and on the message, so
// that the key and the first line tell the reader).
func (r *Recorder) SetEnv(s string) {
	r.mu.Lock()
	r.env = s
	r.mu.Unlock()
}

// NewRecorder makes a recorder for one shard.
func NewRecorder(prop string, shard int, tier string, seed uint64, known map[string]string, replayDir string) *Recorder {
	return &Recorder{
		res:     ShardResult{Prop: prop, Shard: shard, Counters: map[string]int64{}, Known: map[string]int64{}, KnownExample: map[string]string{}},
		hashes:  map[uint64]struct{}{},
		known:   known,
		maxViol: envInt("VERIF_MAX_VIOL", 3),
		maxSamp: 3,
		Tier:    tier,
		Seed:    seed,
		dir:     replayDir,
	}
}

func envInt(name string, def int) int {
	if v, err := strconv.Atoi(os.Getenv(name)); err == nil && v > 0 {
		return v
	}
	return def
}

// At notes which case is running (for violations raised without coordinates).
func (r *Recorder) At(phase, index int) {
	r.mu.Lock()
	r.curPhase, r.curIndex = phase, index
	r.mu.Unlock()
}

// Eval counts one evaluated case; sig identifies the case for distinct
// accounting and is only kept when the case is non-trivial by the property's rule.
// Ticks counts the recordings made by the monitors of this process (every Eval, Count and Max).  The monitors record
// something after nearly every call into the library, so a case that is alive keeps the count moving; the guard
// (props.StartCPUGuard) measures the CPU time and the idle time spent since the LAST recording, not since the case began.
var Ticks atomic.Int64

func (r *Recorder) Eval(sig uint64, nontrivial bool) {
	Ticks.Add(1)
	r.mu.Lock()
	r.res.Evaluations++
	if nontrivial {
		r.hashes[sig] = struct{}{}
	}
	r.mu.Unlock()
}

// Count adds n to a named observation counter.
func (r *Recorder) Count(name string, n int64) {
	Ticks.Add(1)
	r.mu.Lock()
	r.res.Counters[name] += n
	r.mu.Unlock()
}

// Max keeps the maximum seen for a named gauge.
func (r *Recorder) Max(name string, n int64) {
	Ticks.Add(1)
	r.mu.Lock()
	if n > r.res.Counters[name] {
		r.res.Counters[name] = n
	}
	r.mu.Unlock()
}

// Sample keeps the first few cases verbatim.
func (r *Recorder) Sample(v interface{}) {
	r.mu.Lock()
	if len(r.res.Samples) < r.maxSamp {
		r.res.Samples = append(r.res.Samples, v)
	}
	r.mu.Unlock()
}

// WantSample says whether another sample would be kept.
func (r *Recorder) WantSample() bool {
	r.mu.Lock()
	defer r.mu.Unlock()
	return len(r.res.Samples) < r.maxSamp
}

// Inconclusive records a reason why part of the run decided nothing.
func (r *Recorder) Inconclusive(msg string) {
	r.mu.Lock()
	if len(r.res.Inconclusive) < 20 {
		r.res.Inconclusive = append(r.res.Inconclusive, msg)
	}
	r.mu.Unlock()
}

// Violate records a violation of the property at the current case.  A key
// listed in KNOWN_FINDINGS.txt is counted as a known finding instead and
// exploration continues.
func (r *Recorder) Violate(key, msg string, c interface{}) {
	r.ViolateStack(key, msg, c, "")
}

// ViolateStack is Violate with a goroutine stack attached (panics).
func (r *Recorder) ViolateStack(key, msg string, c interface{}, stack string) {
	r.mu.Lock()
	defer r.mu.Unlock()
	if _, ok := r.known[key]; ok {
		r.res.Known[key]++
		if _, seen := r.res.KnownExample[key]; !seen {
			r.res.KnownExample[key] = msg
		}
		return
	}
	for i := range r.res.Violations {
		if r.res.Violations[i].Key == key && len(r.res.Violations) >= 1 {
			// same signature again: count, keep the first witness only
			r.res.Counters["violations_same_key:"+key]++
			return
		}
	}
	if len(r.res.Violations) >= r.maxViol {
		r.res.Counters["violations_dropped"]++
		return
	}
	v := Violation{Prop: r.res.Prop, Key: key, Msg: msg, Tier: r.Tier, Seed: r.Seed, Phase: r.curPhase, Index: r.curIndex, Case: c, Stack: stack, Env: r.env}
	if r.env != "" {
		v.Msg += " [" + r.env + "]"
	}
	if pe := os.Getenv("VERIF_PROC_ENV"); pe != "" {
		v.ProcEnv = pe
		v.Msg += " [process started with " + pe + "]"
	}
	v.Replay = r.writeReplay(&v)
	r.res.Violations = append(r.res.Violations, v)
}

// Stop says whether the shard has collected enough violations to stop early.
func (r *Recorder) Stop() bool {
	r.mu.Lock()
	defer r.mu.Unlock()
	return len(r.res.Violations) >= r.maxViol
}

func (r *Recorder) writeReplay(v *Violation) string {
	os.MkdirAll(r.dir, 0o755)
	name := fmt.Sprintf("%s-%s-s%d-p%d-i%d-%s.json", v.Prop, v.Tier, v.Seed, v.Phase, v.Index, sanitize(v.Key))
	p := filepath.Join(r.dir, name)
	b, err := json.MarshalIndent(v, "", " ")
	if err != nil {
		b, _ = json.MarshalIndent(Violation{Prop: v.Prop, Key: v.Key, Msg: v.Msg + " (case not serialisable: " + err.Error() + ")", Tier: v.Tier, Seed: v.Seed, Phase: v.Phase, Index: v.Index}, "", " ")
	}
	os.WriteFile(p, b, 0o644)
	return p
}

func sanitize(s string) string {
	b := []byte(s)
	for i, c := range b {
		if !(c >= 'a' && c <= 'z' || c >= 'A' && c <= 'Z' || c >= '0' && c <= '9' || c == '-' || c == '_' || c == '.') {
			b[i] = '_'
		}
	}
	if len(b) > 60 {
		b = b[:60]
	}
	return string(b)
}

// Finish writes the shard's result and hash files.
func (r *Recorder) Finish(outDir string) error {
	r.mu.Lock()
	defer r.mu.Unlock()
	r.res.Done = true
	b, err := json.Marshal(&r.res)
	if err != nil {
		// samples may hold something unserialisable; drop them rather than lose the verdict
		r.res.Samples = []interface{}{fmt.Sprintf("samples not serialisable: %v", err)}
		b, err = json.Marshal(&r.res)
		if err != nil {
			return err
		}
	}
	if err := os.WriteFile(filepath.Join(outDir, fmt.Sprintf("shard-%d.json", r.res.Shard)), b, 0o644); err != nil {
		return err
	}
	f, err := os.Create(filepath.Join(outDir, fmt.Sprintf("shard-%d.hashes", r.res.Shard)))
	if err != nil {
		return err
	}
	w := bufio.NewWriter(f)
	var buf [8]byte
	for h := range r.hashes {
		binary.LittleEndian.PutUint64(buf[:], h)
		w.Write(buf[:])
	}
	if err := w.Flush(); err != nil {
		return err
	}
	return f.Close()
}

// Result gives access to the shard result (replay mode prints it).
func (r *Recorder) Result() *ShardResult { return &r.res }

// ---------------------------------------------------------------------------

// LoadShard reads one shard's files back.
func LoadShard(outDir string, shard int) (*ShardResult, []uint64, error) {
	b, err := os.ReadFile(filepath.Join(outDir, fmt.Sprintf("shard-%d.json", shard)))
	if err != nil {
		return nil, nil, err
	}
	var res ShardResult
	if err := json.Unmarshal(b, &res); err != nil {
		return nil, nil, err
	}
	hb, err := os.ReadFile(filepath.Join(outDir, fmt.Sprintf("shard-%d.hashes", shard)))
	if err != nil {
		return &res, nil, err
	}
	hs := make([]uint64, len(hb)/8)
	for i := range hs {
		hs[i] = binary.LittleEndian.Uint64(hb[i*8:])
	}
	return &res, hs, nil
}

// DistinctCount counts distinct values across shards.
func DistinctCount(all [][]uint64) int {
	n := 0
	for _, a := range all {
		n += len(a)
	}
	m := make([]uint64, 0, n)
	for _, a := range all {
		m = append(m, a...)
	}
	sort.Slice(m, func(i, j int) bool { return m[i] < m[j] })
	d := 0
	for i := range m {
		if i == 0 || m[i] != m[i-1] {
			d++
		}
	}
	return d
}

// ---------------------------------------------------------------------------
// known findings

// KnownFinding is one "known:" line of KNOWN_FINDINGS.txt.
type KnownFinding struct {
	Prop, Key, What string
}

// LoadKnown parses KNOWN_FINDINGS.txt.  Lines:
//
//	known: property=<id> key=<signature> <what fails>
//	fixed: property=<id> <commit> <what failed>      (documentation; suppresses nothing)
func LoadKnown(path string) ([]KnownFinding, error) {
	b, err := os.ReadFile(path)
	if err != nil {
		if os.IsNotExist(err) {
			return nil, nil
		}
		return nil, err
	}
	var out []KnownFinding
	for _, line := range strings.Split(string(b), "\n") {
		line = strings.TrimSpace(line)
		if !strings.HasPrefix(line, "known:") {
			continue
		}
		f := strings.Fields(strings.TrimPrefix(line, "known:"))
		var k KnownFinding
		rest := []string{}
		for _, w := range f {
			switch {
			case strings.HasPrefix(w, "property=") && k.Prop == "":
				k.Prop = strings.TrimPrefix(w, "property=")
			case strings.HasPrefix(w, "key=") && k.Key == "":
				k.Key = strings.TrimPrefix(w, "key=")
			default:
				rest = append(rest, w)
			}
		}
		k.What = strings.Join(rest, " ")
		if k.Prop != "" && k.Key != "" {
			out = append(out, k)
		}
	}
	return out, nil
}

// KnownFor filters the findings of one property into key -> description.
func KnownFor(all []KnownFinding, prop string) map[string]string {
	m := map[string]string{}
	for _, k := range all {
		if k.Prop == prop {
			m[k.Key] = k.What
		}
	}
	return m
}

// ---------------------------------------------------------------------------
// evidence

// Evidence is the schema-shaped evidence document.
type Evidence struct {
	PropertyID  string                 `json:"property_id"`
	Tier        string                 `json:"tier"`
	Seed        int64                  `json:"seed"`
	Level       string                 `json:"level"`
	Coverage    map[string]interface{} `json:"coverage"`
	Assumptions []string               `json:"assumptions"`
	WallS       float64                `json:"wall_s"`
	Violations  int                    `json:"violations"`
}

// Write stores the evidence file atomically.
func (e *Evidence) Write(path string) error {
	os.MkdirAll(filepath.Dir(path), 0o755)
	b, err := json.MarshalIndent(e, "", " ")
	if err != nil {
		return err
	}
	tmp := path + ".tmp"
	if err := os.WriteFile(tmp, append(b, '\n'), 0o644); err != nil {
		return err
	}
	return os.Rename(tmp, path)
}
