package props

import (
	"fmt"
	"go.pennock.tech/tabular/length"
	stdhtml "html"
	"regexp"
	"strings"

	"go.pennock.tech/tabular"
	"go.pennock.tech/tabular/markdown"
	"go.pennock.tech/tabular/properties/align"

	"verifharness/internal/gen"
	"verifharness/internal/model"
)

// C08 - Markdown output keeps GFM table structure and neutralises cell content.

const c08Fam = gen.FAscii | gen.FMD | gen.FHTML | gen.FNewline | gen.FWide | gen.FCSV | gen.FEmoji | gen.FCombining | gen.FEdge

// alignment assignment: 0 unset, 1 left, 2 right, 3 centre
var alignVals = []align.Alignment{nil, align.Left, align.Right, align.Center}
var alignNames = []string{"unset", "left", "right", "centre"}

type c08Case struct {
	Table  gen.TableSpec `json:"table"`
	Aligns []int         `json:"alignment_column0_then_columns"`
	Mode   string        `json:"mode,omitempty"`
	st     *stage
}

func applyAligns(t tabular.Table, a []int) {
	for n, v := range a {
		if n > t.NColumns() {
			break
		}
		if v != 0 {
			t.Column(n).SetProperty(align.PropertyType, alignVals[v])
		}
	}
}

func effectiveAlign(a []int, col int) int { // col is 1-based
	if col < len(a) && a[col] != 0 {
		return a[col]
	}
	if len(a) > 0 {
		return a[0]
	}
	return 0
}

var c08Delim = regexp.MustCompile(`^(:?)-{3,}(:?)$`)

func c08Check(c *Ctx, cs *c08Case, sample bool) {
	spec := &cs.Table
	c.Case = cs
	t0 := tabular.New()
	mw := markdown.Wrap(t0)
	if st := cs.st; st != nil {
		cs.Mode = st.Note
		b := spec.BuildStagedN(t0, st.points(), func() {
			applyAligns(t0, st.PreAligns)
			o, _ := mw.Render()
			c.Keep(o, "an earlier Render through the same wrapper")
		})
		applyAligns(t0, st.PreAligns)
		o, _ := mw.Render()
		c.Keep(o, "an earlier Render through the same wrapper")
		if gen.Hash64(spec.Shape(), "finalize")%4 == 0 {
			// the items reach their final state, and their cells are updated, from inside the judged render
			b.FinalizeFromCallbacks()
			c.Rec.Count("staged_cases_whose_items_are_refreshed_by_pre-cell_callbacks_during_the_judged_render", 1)
		} else {
			b.Finalize()
		}
		setAlignsExactly(t0, cs.Aligns) // final assignment in force; settings of the earlier one are withdrawn
		c.Rec.Count("staged_cases(render, change, render again through the same wrapper)", 1)
	} else {
		spec.Build(t0)
		applyAligns(t0, cs.Aligns)
	}
	out, err := mw.Render()
	if cs.st != nil {
		// a fresh wrapper around the same table must agree with the reused one
		if out2, err2 := markdown.Wrap(t0).Render(); out2 != out || (err2 != nil) != (err != nil) {
			c.Rec.Violate("markdown:fresh-wrapper-differs-from-reused", fmt.Sprintf("after render/change/render: the reused wrapper gives %q (err %v), a fresh wrapper around the same table %q (err %v)", out, err, out2, err2), cs)
			return
		}
	}
	n := spec.NCols()
	nontrivial := n > 0 && spec.HasHeader && spec.NBody() > 0
	c.Rec.Eval(gen.Hash64(spec.Shape(), fmt.Sprint(spec.HeaderTexts()), fmt.Sprint(textsOf(spec)), fmt.Sprint(cs.Aligns)), nontrivial)
	if err != nil && out != "" {
		c.Rec.Violate("markdown:text-with-error", fmt.Sprintf("Render returned %d bytes together with error %v", len(out), err), cs)
		return
	}
	if n == 0 || !spec.HasHeader {
		c.Rec.Count("tables_that_must_be_refused", 1)
		if err == nil {
			why := "without columns"
			if n > 0 {
				why = "without headers"
			}
			c.Rec.Violate("markdown:not-refused:"+strings.ReplaceAll(why, " ", "-"), fmt.Sprintf("a table %s rendered without error; output %q", why, out), cs)
		}
		return
	}
	if err != nil {
		c.Rec.Count("renders_refused_although_well_formed", 1)
		return
	}
	c.Rec.Count("outputs_parsed", 1)
	if sample && nontrivial && c.Rec.WantSample() {
		c.Rec.Sample(map[string]interface{}{"case": cs, "output": gen.Q(out)})
	}
	viol := func(key, msg string) {
		c.Rec.Violate(key, msg+fmt.Sprintf("; output %q", out), cs)
	}
	if !strings.HasSuffix(out, "\n") {
		viol("markdown:no-final-newline", "output does not end with a line feed")
		return
	}
	lines := strings.Split(strings.TrimSuffix(out, "\n"), "\n")
	want := 2 + spec.NBody()
	if len(lines) != want {
		viol("markdown:line-count", fmt.Sprintf("%d lines, expected header + delimiter + %d rows = %d (a line feed from content, or a separator, reached the output?)", len(lines), spec.NBody(), want))
		return
	}
	// expected cell texts per line
	expect := make([][]string, 0, want)
	pad := func(x []string) []string {
		o := make([]string, n)
		copy(o, x)
		return o
	}
	expect = append(expect, pad(spec.HeaderTexts()), nil)
	for i := range spec.Rows {
		if !spec.Rows[i].Sep {
			expect = append(expect, pad(spec.RowTexts(i)))
		}
	}
	for li, line := range lines {
		cells, pipes, perr := model.SplitGFMLine(line)
		if perr != nil {
			viol("markdown:line-structure", fmt.Sprintf("line %d: %v", li, perr))
			return
		}
		if pipes != n+1 {
			viol("markdown:pipe-count", fmt.Sprintf("line %d has %d unescaped pipes, table has %d columns", li, pipes, n))
			return
		}
		if li == 1 {
			for col, raw := range cells {
				m := c08Delim.FindStringSubmatch(strings.Trim(raw, " "))
				if m == nil {
					viol("markdown:delimiter-cell", fmt.Sprintf("delimiter cell %d is %q, not :?-{3,}:?", col+1, raw))
					return
				}
				lead, trail := m[1] == ":", m[2] == ":"
				eff := effectiveAlign(cs.Aligns, col+1)
				ok := false
				switch eff {
				case 0, 1: // unset or left: no markers, or a leading colon
					ok = !trail
				case 2:
					ok = trail && !lead
				case 3:
					ok = trail && lead
				}
				c.Rec.Count("delimiter_cells_checked", 1)
				if !ok {
					src := "own setting"
					if col+1 >= len(cs.Aligns) || cs.Aligns[col+1] == 0 {
						src = "column-0 default"
					}
					viol("markdown:alignment-markers:"+strings.ReplaceAll(src, " ", "-"), fmt.Sprintf("delimiter cell %d is %q but the column's effective alignment is %s (%s)", col+1, raw, alignNames[eff], src))
					return
				}
			}
			continue
		}
		for col, raw := range cells {
			c.Rec.Count("cells_compared", 1)
			if rerr := model.CheckMDCellRaw(raw); rerr != nil {
				viol("markdown:raw-special-character", fmt.Sprintf("line %d cell %d %q: %v", li, col+1, raw, rerr))
				return
			}
			got := stdhtml.UnescapeString(strings.Trim(raw, " "))
			exp := strings.Trim(expect[li][col], " ")
			if got != exp {
				viol("markdown:cell-text", fmt.Sprintf("line %d cell %d decodes to %q, expected %q", li, col+1, got, exp))
				return
			}
		}
	}
}

func c08Random(c *Ctx, i int, r *gen.R) {
	hdr := 1
	if r.Chance(1, 15) {
		hdr = 2
	}
	spec := r.Table(gen.TableOpts{MaxCols: 5, MaxRows: 6, Header: hdr, ZeroHeaderOK: true, MinCols: 0, Noise: gen.NoiseSkipable | gen.NoiseCallbacks | gen.NoiseFailingCallbacks | gen.NoiseAlignElsewhere,
		Item: func(r *gen.R) gen.ItemSpec {
			if r.Chance(1, 15) {
				return r.AnyItem(c08Fam, 4, 1) // the whole item zoo: whatever the item is, the cell shows the cell's text
			}
			return r.TextItemSized(c08Fam, 6, length.StringCells)
		}})
	cs := &c08Case{Table: spec, Aligns: make([]int, spec.NCols()+1)}
	if r.Chance(3, 4) {
		for k := range cs.Aligns {
			cs.Aligns[k] = r.Intn(4)
		}
	}
	cs.st = drawStage(r, len(spec.Rows), spec.NCols())
	c08Check(c, cs, true)
}

// every alignment assignment to column 0 and 3 columns (4^4) on two fixed tables
func c08Alignments(c *Ctx, i int, r *gen.R) {
	a := []int{i % 4, (i / 4) % 4, (i / 16) % 4, (i / 64) % 4}
	variant := i / 256
	var spec gen.TableSpec
	spec.HasHeader = true
	switch variant {
	case 0:
		spec.Header = []gen.ItemSpec{gen.StrItem("a"), gen.StrItem("bb"), gen.StrItem("ccc")}
		spec.Rows = []gen.RowSpec{{Items: []gen.ItemSpec{gen.StrItem("1"), gen.StrItem("22222"), gen.StrItem("3")}}, {Sep: true}, {Items: []gen.ItemSpec{gen.StrItem("x")}}}
	case 1:
		spec.Header = []gen.ItemSpec{gen.StrItem("h|1"), gen.StrItem("")}
		spec.Rows = []gen.RowSpec{{Items: []gen.ItemSpec{}}, {Items: []gen.ItemSpec{gen.StrItem("a\nb"), gen.StrItem("<>&"), gen.StrItem("wide wide wide")}, Mode: gen.ModeNewRowAdd}}
	}
	cs := &c08Case{Table: spec, Aligns: a}
	if i%2 == 1 {
		cs.st = &stage{At: i % 3, PreAligns: []int{(i / 8) % 4, (i / 2) % 4, i % 4, (i / 32) % 4}, Note: "staged: wrapper reused, other alignments at the first render"}
	}
	c08Check(c, cs, i%64 == 9)
}

// hostile atoms in every cell position of a 3-column row and header
var c08Atoms = []string{"", "|", "\\", "\\|", "\n", "<", ">", "&", "\"", "'", "&amp;", "&#x7c;", "&#124;", " ", "a", "\\\\", "`|`", "-"}

func c08Positions(c *Ctx, i int, r *gen.R) {
	n := len(c08Atoms)
	a, b2 := c08Atoms[i%n], c08Atoms[(i/n)%n]
	pos := (i / n / n) % 3
	inHeader := i/(n*n*3) == 1
	cellsOf := func() []gen.ItemSpec {
		items := []gen.ItemSpec{gen.StrItem("p"), gen.StrItem("q"), gen.StrItem("r")}
		items[pos] = gen.StrItem(a + b2)
		return items
	}
	var spec gen.TableSpec
	spec.HasHeader = true
	if inHeader {
		spec.Header = cellsOf()
		spec.Rows = []gen.RowSpec{{Items: []gen.ItemSpec{gen.StrItem("x")}}}
	} else {
		spec.Header = []gen.ItemSpec{gen.StrItem("h1"), gen.StrItem("h2"), gen.StrItem("h3")}
		spec.Rows = []gen.RowSpec{{Items: cellsOf()}, {Items: []gen.ItemSpec{gen.StrItem(b2 + a)}}}
	}
	c08Check(c, &c08Case{Table: spec, Aligns: []int{0, 0, 0, 0}}, i%700 == 3)
}

func init() {
	n := len(c08Atoms)
	register(&Prop{
		ID:    "C08",
		Level: "exploration",
		Rule: "phase 0 (exhaustive): all pairs over an 18-atom hostile alphabet (pipe, backslash, escaped pipe, LF, < > & \" ', entity look-alikes, backtick-pipe, ...) in each of 3 positions of a body row and of the header; phase 1 (exhaustive): every assignment of {unset,left,right,centre} to column 0 and 3 columns (256) on 2 fixed tables; " +
			"phase 2: random tables with headers (1/15 without, to check refusal; some without columns), 0-5 columns x 0-6 rows, ragged/zero-cell rows, separators, texts of 0-6 atoms from ascii+md+html+LF+wide+csv+emoji+combining alphabets (no CR: documented non-goal), random alignment assignment. " +
			"Output split byte-wise on LF and on pipes not preceded by an odd run of backslashes; cells entity-decoded with html.UnescapeString. Distinct = distinct (shape, texts, alignments); non-trivial = header, at least one column and one body row.",
		Assumptions: []string{
			"accepted colon forms: unset or left -> none or leading colon; right -> trailing only; centre -> both",
			"cell texts are free of carriage returns (documented non-goal)",
			"an error for a well-formed table is counted, not alarmed on",
		},
		Phases: []Phase{
			{Name: "hostile atom pairs in every cell position", Exhaustive: true, N: Fixed(n*n*3*2, n*n*3*2), Run: c08Positions},
			{Name: "all alignment assignments to column 0 and 3 columns x 2 tables", Exhaustive: true, N: Fixed(512, 512), Run: c08Alignments},
			{Name: "random tables", N: Fixed(5000, 3000000), Run: c08Random},
		},
	})
}
