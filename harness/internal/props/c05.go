package props

import (
	"fmt"
	"go.pennock.tech/tabular/length"

	"go.pennock.tech/tabular"
	"go.pennock.tech/tabular/csv"

	"verifharness/internal/gen"
	"verifharness/internal/model"
)

// C05 - CSV output parses back, under RFC 4180 quoting, to exactly the table.

const c05Fam = gen.FAscii | gen.FCSV | gen.FNewline | gen.FCR | gen.FInvalid | gen.FWide | gen.FNUL | gen.FHTML | gen.FEdge

func c05Table(r *gen.R) gen.TableSpec {
	return r.Table(gen.TableOpts{MaxCols: 5, MaxRows: 6, ZeroHeaderOK: true, MinCols: 0, Noise: gen.NoiseSkipable | gen.NoiseAlign | gen.NoiseCallbacks | gen.NoiseFailingCallbacks,
		Item: func(r *gen.R) gen.ItemSpec {
			if r.Chance(1, 25) {
				return r.AnyItem(c05Fam, 5, 1)
			}
			return r.TextItemSized(c05Fam, 6, length.StringCells)
		}})
}

// csvExpected returns the records the statement requires (header first if any).
func csvExpected(s *gen.TableSpec) (withHeader, withoutHeader [][]string) {
	n := s.NCols()
	pad := func(x []string) []string {
		out := make([]string, n)
		copy(out, x)
		return out
	}
	var body [][]string
	for i := range s.Rows {
		if s.Rows[i].Sep {
			continue
		}
		body = append(body, pad(s.RowTexts(i)))
	}
	withoutHeader = body
	if s.HasHeader {
		withHeader = append([][]string{pad(s.HeaderTexts())}, body...)
	} else {
		withHeader = body
	}
	return
}

func recsEqual(a, b [][]string) (bool, string) {
	if len(a) != len(b) {
		return false, fmt.Sprintf("%d records, expected %d", len(a), len(b))
	}
	for i := range a {
		if len(a[i]) != len(b[i]) {
			return false, fmt.Sprintf("record %d has %d fields, expected %d", i, len(a[i]), len(b[i]))
		}
		for j := range a[i] {
			if a[i][j] != b[i][j] {
				return false, fmt.Sprintf("record %d field %d is %q, expected %q", i, j, a[i][j], b[i][j])
			}
		}
	}
	return true, ""
}

func c05Check(c *Ctx, spec *gen.TableSpec, st *stage, sample bool) {
	c.Case = spec
	t := tabular.New()
	w := csv.Wrap(t)
	if st != nil {
		c.Case = map[string]interface{}{"table": spec, "mode": st.Note}
		b := spec.BuildStagedN(t, st.points(), func() { o, _ := w.Render(); c.Keep(o, "an earlier Render through the same wrapper") })
		w.Render()
		b.Finalize()
		c.Rec.Count("staged_cases(render, change, render again through the same wrapper)", 1)
	} else {
		spec.Build(t)
	}
	out, err := w.Render()
	n := spec.NCols()
	nontrivial := n > 0 && spec.NBody() > 0
	c.Rec.Eval(gen.Hash64(spec.Shape(), fmt.Sprint(spec.HeaderTexts()), fmt.Sprint(textsOf(spec))), nontrivial)
	if sample && nontrivial && c.Rec.WantSample() {
		c.Rec.Sample(map[string]interface{}{"table": spec, "output": gen.Q(out)})
	}
	if err != nil && out != "" {
		c.Rec.Violate("csv:text-with-error", fmt.Sprintf("Render returned %d bytes together with error %v", len(out), err), spec)
		return
	}
	if n == 0 {
		c.Rec.Count("zero_column_tables", 1)
		if err == nil {
			c.Rec.Violate("csv:zero-columns-not-refused", fmt.Sprintf("a table without columns rendered without error (output %q)", out), spec)
		}
		return
	}
	if err != nil {
		c.Rec.Count("renders_refused_although_columns_exist", 1)
		return
	}
	c.Rec.Count("outputs_parsed", 1)
	recs, perr := model.ParseCSVStrict([]byte(out))
	if perr != nil {
		c.Rec.Violate("csv:not-strict-rfc4180", fmt.Sprintf("output is not all-quoted RFC 4180: %v; output %q", perr, out), spec)
		return
	}
	withH, withoutH := csvExpected(spec)
	ok, why := recsEqual(recs, withH)
	if !ok && spec.HasHeader && len(spec.Header) == 0 {
		// a header of zero cells: record of padding may be present or absent
		ok, _ = recsEqual(recs, withoutH)
	}
	if !ok {
		key := "csv:records-differ"
		for i := range spec.Rows {
			if !spec.Rows[i].Sep && len(spec.Rows[i].Items) == 0 {
				key = "csv:records-differ:table-with-zero-cell-row"
			}
		}
		c.Rec.Violate(key, fmt.Sprintf("parsed CSV differs from the table: %s; output %q", why, out), spec)
		return
	}
	for _, rec := range recs {
		c.Rec.Count("fields_compared", int64(len(rec)))
	}
}

func textsOf(s *gen.TableSpec) [][]string {
	out := make([][]string, len(s.Rows))
	for i := range s.Rows {
		out[i] = s.RowTexts(i)
	}
	return out
}

// exhaustive small phase: every field string over a tiny hostile alphabet in every position of a 3-column row
var c05Atoms = []string{"", "\"", ",", "\n", "\r", "\r\n", "\"\"", "a", "\x00", "\xff", "\",\"", " "}

func c05Positions(c *Ctx, i int, r *gen.R) {
	n := len(c05Atoms)
	a, b2, c3 := c05Atoms[i%n], c05Atoms[(i/n)%n], c05Atoms[(i/n/n)%n]
	variant := i / (n * n * n) // 0: full row; 1: short row (padded); 2: in header
	spec := gen.TableSpec{}
	switch variant {
	case 0:
		spec.Rows = []gen.RowSpec{{Items: []gen.ItemSpec{gen.StrItem(a), gen.StrItem(b2), gen.StrItem(c3)}}}
	case 1:
		spec.Rows = []gen.RowSpec{{Items: []gen.ItemSpec{gen.StrItem("w"), gen.StrItem("x"), gen.StrItem("y"), gen.StrItem("z")}}, {Items: []gen.ItemSpec{gen.StrItem(a), gen.StrItem(b2 + c3)}}, {Items: []gen.ItemSpec{}}}
	case 2:
		spec.HasHeader = true
		spec.Header = []gen.ItemSpec{gen.StrItem(a), gen.StrItem(b2), gen.StrItem(c3)}
		spec.Rows = []gen.RowSpec{{Sep: true}, {Items: []gen.ItemSpec{gen.StrItem(c3)}}, {Sep: true}}
		spec.HeaderAt = 1
	}
	var st *stage
	if i%2 == 1 {
		st = &stage{At: i % 3, Note: "staged: wrapper reused"}
	}
	c05Check(c, &spec, st, i%500 == 1)
}

func init() {
	n := len(c05Atoms)
	register(&Prop{
		ID:    "C05",
		Level: "exploration",
		Rule: "phase 0 (exhaustive): all triples over a 12-atom hostile alphabet {empty, quote, comma, LF, CR, CRLF, doubled quote, letter, NUL, invalid byte, quote-comma-quote, space} placed in first/middle/last field of a full row, of a short (padded) row next to a zero-cell row, and of a header; " +
			"phase 1: random tables of 0-5 columns x 0-6 rows, ragged and zero-cell rows, with/without header (incl. zero-item header, header before/between/after rows), separators anywhere, every row-building route, texts of 0-6 atoms from ascii+csv+LF+CR+invalid-UTF-8+wide+NUL+html alphabets (occasionally non-string items). Output is parsed by a strict all-quoted RFC 4180 state machine and compared byte for byte. " +
			"Distinct = distinct (shape, texts); non-trivial = at least one column and one body row.",
		Assumptions: []string{
			"a header of zero cells may appear as a record of padding or not at all (the statement leaves it open)",
			"an error for a table that has columns is counted, not alarmed on (the statement constrains successful output and the zero-column case)",
		},
		Phases: []Phase{
			{Name: "hostile atoms in every field position", Exhaustive: true, N: Fixed(n*n*n*3, n*n*n*3), Run: c05Positions},
			{Name: "random tables", N: Fixed(5000, 3000000), Run: func(c *Ctx, i int, r *gen.R) {
				spec := c05Table(r)
				c05Check(c, &spec, drawStage(r, len(spec.Rows), spec.NCols()), true)
			}},
		},
	})
}
