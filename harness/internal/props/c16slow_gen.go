// Code generated for C16 (item types met for the first time by many goroutines at once); DO NOT EDIT.

package props

import "runtime"

// c16Slow types: one fresh dynamic type per batch.  Their String method yields the processor as often as the instance says (an item
// formatting itself from a slow source), so that whatever the library works out once per TYPE is being worked out
// by one goroutine while others build cells of the same type; they declare their own size.
type c16Slow00 struct {
	s string
	n int
}

func (t c16Slow00) String() string {
	for i := 0; i < t.n; i++ {
		runtime.Gosched()
	}
	return t.s
}
func (t c16Slow00) Height() int            { return 3 }
func (t c16Slow00) TerminalCellWidth() int { return 9 }

type c16Slow01 struct {
	s string
	n int
}

func (t c16Slow01) String() string {
	for i := 0; i < t.n; i++ {
		runtime.Gosched()
	}
	return t.s
}
func (t c16Slow01) Height() int            { return 3 }
func (t c16Slow01) TerminalCellWidth() int { return 9 }

type c16Slow02 struct {
	s string
	n int
}

func (t c16Slow02) String() string {
	for i := 0; i < t.n; i++ {
		runtime.Gosched()
	}
	return t.s
}
func (t c16Slow02) Height() int            { return 3 }
func (t c16Slow02) TerminalCellWidth() int { return 9 }

type c16Slow03 struct {
	s string
	n int
}

func (t c16Slow03) String() string {
	for i := 0; i < t.n; i++ {
		runtime.Gosched()
	}
	return t.s
}
func (t c16Slow03) Height() int            { return 3 }
func (t c16Slow03) TerminalCellWidth() int { return 9 }

type c16Slow04 struct {
	s string
	n int
}

func (t c16Slow04) String() string {
	for i := 0; i < t.n; i++ {
		runtime.Gosched()
	}
	return t.s
}
func (t c16Slow04) Height() int            { return 3 }
func (t c16Slow04) TerminalCellWidth() int { return 9 }

type c16Slow05 struct {
	s string
	n int
}

func (t c16Slow05) String() string {
	for i := 0; i < t.n; i++ {
		runtime.Gosched()
	}
	return t.s
}
func (t c16Slow05) Height() int            { return 3 }
func (t c16Slow05) TerminalCellWidth() int { return 9 }

type c16Slow06 struct {
	s string
	n int
}

func (t c16Slow06) String() string {
	for i := 0; i < t.n; i++ {
		runtime.Gosched()
	}
	return t.s
}
func (t c16Slow06) Height() int            { return 3 }
func (t c16Slow06) TerminalCellWidth() int { return 9 }

type c16Slow07 struct {
	s string
	n int
}

func (t c16Slow07) String() string {
	for i := 0; i < t.n; i++ {
		runtime.Gosched()
	}
	return t.s
}
func (t c16Slow07) Height() int            { return 3 }
func (t c16Slow07) TerminalCellWidth() int { return 9 }

type c16Slow08 struct {
	s string
	n int
}

func (t c16Slow08) String() string {
	for i := 0; i < t.n; i++ {
		runtime.Gosched()
	}
	return t.s
}
func (t c16Slow08) Height() int            { return 3 }
func (t c16Slow08) TerminalCellWidth() int { return 9 }

type c16Slow09 struct {
	s string
	n int
}

func (t c16Slow09) String() string {
	for i := 0; i < t.n; i++ {
		runtime.Gosched()
	}
	return t.s
}
func (t c16Slow09) Height() int            { return 3 }
func (t c16Slow09) TerminalCellWidth() int { return 9 }

type c16Slow10 struct {
	s string
	n int
}

func (t c16Slow10) String() string {
	for i := 0; i < t.n; i++ {
		runtime.Gosched()
	}
	return t.s
}
func (t c16Slow10) Height() int            { return 3 }
func (t c16Slow10) TerminalCellWidth() int { return 9 }

type c16Slow11 struct {
	s string
	n int
}

func (t c16Slow11) String() string {
	for i := 0; i < t.n; i++ {
		runtime.Gosched()
	}
	return t.s
}
func (t c16Slow11) Height() int            { return 3 }
func (t c16Slow11) TerminalCellWidth() int { return 9 }

type c16Slow12 struct {
	s string
	n int
}

func (t c16Slow12) String() string {
	for i := 0; i < t.n; i++ {
		runtime.Gosched()
	}
	return t.s
}
func (t c16Slow12) Height() int            { return 3 }
func (t c16Slow12) TerminalCellWidth() int { return 9 }

type c16Slow13 struct {
	s string
	n int
}

func (t c16Slow13) String() string {
	for i := 0; i < t.n; i++ {
		runtime.Gosched()
	}
	return t.s
}
func (t c16Slow13) Height() int            { return 3 }
func (t c16Slow13) TerminalCellWidth() int { return 9 }

type c16Slow14 struct {
	s string
	n int
}

func (t c16Slow14) String() string {
	for i := 0; i < t.n; i++ {
		runtime.Gosched()
	}
	return t.s
}
func (t c16Slow14) Height() int            { return 3 }
func (t c16Slow14) TerminalCellWidth() int { return 9 }

type c16Slow15 struct {
	s string
	n int
}

func (t c16Slow15) String() string {
	for i := 0; i < t.n; i++ {
		runtime.Gosched()
	}
	return t.s
}
func (t c16Slow15) Height() int            { return 3 }
func (t c16Slow15) TerminalCellWidth() int { return 9 }

type c16Slow16 struct {
	s string
	n int
}

func (t c16Slow16) String() string {
	for i := 0; i < t.n; i++ {
		runtime.Gosched()
	}
	return t.s
}
func (t c16Slow16) Height() int            { return 3 }
func (t c16Slow16) TerminalCellWidth() int { return 9 }

type c16Slow17 struct {
	s string
	n int
}

func (t c16Slow17) String() string {
	for i := 0; i < t.n; i++ {
		runtime.Gosched()
	}
	return t.s
}
func (t c16Slow17) Height() int            { return 3 }
func (t c16Slow17) TerminalCellWidth() int { return 9 }

type c16Slow18 struct {
	s string
	n int
}

func (t c16Slow18) String() string {
	for i := 0; i < t.n; i++ {
		runtime.Gosched()
	}
	return t.s
}
func (t c16Slow18) Height() int            { return 3 }
func (t c16Slow18) TerminalCellWidth() int { return 9 }

type c16Slow19 struct {
	s string
	n int
}

func (t c16Slow19) String() string {
	for i := 0; i < t.n; i++ {
		runtime.Gosched()
	}
	return t.s
}
func (t c16Slow19) Height() int            { return 3 }
func (t c16Slow19) TerminalCellWidth() int { return 9 }

type c16Slow20 struct {
	s string
	n int
}

func (t c16Slow20) String() string {
	for i := 0; i < t.n; i++ {
		runtime.Gosched()
	}
	return t.s
}
func (t c16Slow20) Height() int            { return 3 }
func (t c16Slow20) TerminalCellWidth() int { return 9 }

type c16Slow21 struct {
	s string
	n int
}

func (t c16Slow21) String() string {
	for i := 0; i < t.n; i++ {
		runtime.Gosched()
	}
	return t.s
}
func (t c16Slow21) Height() int            { return 3 }
func (t c16Slow21) TerminalCellWidth() int { return 9 }

type c16Slow22 struct {
	s string
	n int
}

func (t c16Slow22) String() string {
	for i := 0; i < t.n; i++ {
		runtime.Gosched()
	}
	return t.s
}
func (t c16Slow22) Height() int            { return 3 }
func (t c16Slow22) TerminalCellWidth() int { return 9 }

type c16Slow23 struct {
	s string
	n int
}

func (t c16Slow23) String() string {
	for i := 0; i < t.n; i++ {
		runtime.Gosched()
	}
	return t.s
}
func (t c16Slow23) Height() int            { return 3 }
func (t c16Slow23) TerminalCellWidth() int { return 9 }

type c16Slow24 struct {
	s string
	n int
}

func (t c16Slow24) String() string {
	for i := 0; i < t.n; i++ {
		runtime.Gosched()
	}
	return t.s
}
func (t c16Slow24) Height() int            { return 3 }
func (t c16Slow24) TerminalCellWidth() int { return 9 }

type c16Slow25 struct {
	s string
	n int
}

func (t c16Slow25) String() string {
	for i := 0; i < t.n; i++ {
		runtime.Gosched()
	}
	return t.s
}
func (t c16Slow25) Height() int            { return 3 }
func (t c16Slow25) TerminalCellWidth() int { return 9 }

type c16Slow26 struct {
	s string
	n int
}

func (t c16Slow26) String() string {
	for i := 0; i < t.n; i++ {
		runtime.Gosched()
	}
	return t.s
}
func (t c16Slow26) Height() int            { return 3 }
func (t c16Slow26) TerminalCellWidth() int { return 9 }

type c16Slow27 struct {
	s string
	n int
}

func (t c16Slow27) String() string {
	for i := 0; i < t.n; i++ {
		runtime.Gosched()
	}
	return t.s
}
func (t c16Slow27) Height() int            { return 3 }
func (t c16Slow27) TerminalCellWidth() int { return 9 }

type c16Slow28 struct {
	s string
	n int
}

func (t c16Slow28) String() string {
	for i := 0; i < t.n; i++ {
		runtime.Gosched()
	}
	return t.s
}
func (t c16Slow28) Height() int            { return 3 }
func (t c16Slow28) TerminalCellWidth() int { return 9 }

type c16Slow29 struct {
	s string
	n int
}

func (t c16Slow29) String() string {
	for i := 0; i < t.n; i++ {
		runtime.Gosched()
	}
	return t.s
}
func (t c16Slow29) Height() int            { return 3 }
func (t c16Slow29) TerminalCellWidth() int { return 9 }

type c16Slow30 struct {
	s string
	n int
}

func (t c16Slow30) String() string {
	for i := 0; i < t.n; i++ {
		runtime.Gosched()
	}
	return t.s
}
func (t c16Slow30) Height() int            { return 3 }
func (t c16Slow30) TerminalCellWidth() int { return 9 }

type c16Slow31 struct {
	s string
	n int
}

func (t c16Slow31) String() string {
	for i := 0; i < t.n; i++ {
		runtime.Gosched()
	}
	return t.s
}
func (t c16Slow31) Height() int            { return 3 }
func (t c16Slow31) TerminalCellWidth() int { return 9 }

var c16SlowMakers = []func(s string, yields int) interface{}{
	func(s string, n int) interface{} { return c16Slow00{s, n} },
	func(s string, n int) interface{} { return c16Slow01{s, n} },
	func(s string, n int) interface{} { return c16Slow02{s, n} },
	func(s string, n int) interface{} { return c16Slow03{s, n} },
	func(s string, n int) interface{} { return c16Slow04{s, n} },
	func(s string, n int) interface{} { return c16Slow05{s, n} },
	func(s string, n int) interface{} { return c16Slow06{s, n} },
	func(s string, n int) interface{} { return c16Slow07{s, n} },
	func(s string, n int) interface{} { return c16Slow08{s, n} },
	func(s string, n int) interface{} { return c16Slow09{s, n} },
	func(s string, n int) interface{} { return c16Slow10{s, n} },
	func(s string, n int) interface{} { return c16Slow11{s, n} },
	func(s string, n int) interface{} { return c16Slow12{s, n} },
	func(s string, n int) interface{} { return c16Slow13{s, n} },
	func(s string, n int) interface{} { return c16Slow14{s, n} },
	func(s string, n int) interface{} { return c16Slow15{s, n} },
	func(s string, n int) interface{} { return c16Slow16{s, n} },
	func(s string, n int) interface{} { return c16Slow17{s, n} },
	func(s string, n int) interface{} { return c16Slow18{s, n} },
	func(s string, n int) interface{} { return c16Slow19{s, n} },
	func(s string, n int) interface{} { return c16Slow20{s, n} },
	func(s string, n int) interface{} { return c16Slow21{s, n} },
	func(s string, n int) interface{} { return c16Slow22{s, n} },
	func(s string, n int) interface{} { return c16Slow23{s, n} },
	func(s string, n int) interface{} { return c16Slow24{s, n} },
	func(s string, n int) interface{} { return c16Slow25{s, n} },
	func(s string, n int) interface{} { return c16Slow26{s, n} },
	func(s string, n int) interface{} { return c16Slow27{s, n} },
	func(s string, n int) interface{} { return c16Slow28{s, n} },
	func(s string, n int) interface{} { return c16Slow29{s, n} },
	func(s string, n int) interface{} { return c16Slow30{s, n} },
	func(s string, n int) interface{} { return c16Slow31{s, n} },
}
