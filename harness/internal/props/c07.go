package props

import (
	"bytes"
	stdjson "encoding/json"
	"errors"
	"fmt"
	"io"
	"math"
	"math/big"
	"reflect"
	"strings"
	"time"
	"unicode/utf8"

	"go.pennock.tech/tabular"
	"go.pennock.tech/tabular/json"
	"go.pennock.tech/tabular/properties"
	"go.pennock.tech/tabular/properties/align"

	"verifharness/internal/gen"
)

// C07 - JSON output is valid JSON that mirrors the table, or an error and nothing.

// ---- JSON-specific item kinds

type c07Exported struct {
	A int    `json:"a"`
	B string `json:"b,omitempty"`
}

type c07FieldlessStringer struct{ hidden string }

func (f c07FieldlessStringer) String() string { return f.hidden }

type c07Marshaler struct {
	raw  string
	text string
}

func (m c07Marshaler) MarshalJSON() ([]byte, error) { return []byte(m.raw), nil }
func (m c07Marshaler) String() string               { return m.text }

type c07FailingMarshaler struct{}

func (c07FailingMarshaler) MarshalJSON() ([]byte, error) {
	return nil, fmt.Errorf("cannot marshal this")
}

// values that are boolean by KIND but not of type bool: the statement says "non-boolean setting"
type c07Tri bool

type c07TriS bool

func (t c07TriS) String() string { return "tri-state" }

type c07Item struct {
	Desc  string      `json:"desc"`
	item  interface{} // what is stored
	fails bool        // json.Marshal(item) must fail
}

// c07Label is a mutable item without exported fields (it encodes as {} and so falls back to the cell's text) whose
// text changes AFTER the table has been built, without the cell being asked to update: the cell - and so the JSON
// renderer, which shows cells - goes on showing what the cell read when it was made.
type c07Label struct{ cur, whenBuilt, later string }

func (l *c07Label) String() string { return l.cur }

// txt is the text of the cell holding the item.
func (it c07Item) txt() string {
	if l, ok := it.item.(*c07Label); ok {
		return l.whenBuilt
	}
	return c07Text(it.item)
}

const c07TextFam = gen.FAscii | gen.FHTML | gen.FMD | gen.FWide | gen.FNewline | gen.FCSV | gen.FEmoji | gen.FCombining | gen.FEdge

// texts of items (as opposed to header keys) may hold anything: control characters, escape sequences, NUL, invalid UTF-8
const c07ValueFam = c07TextFam | gen.FSGR | gen.FNUL | gen.FInvalid | gen.FZero | gen.FCR

func c07RandomItem(r *gen.R) c07Item {
	switch r.Intn(27) {
	case 26:
		// types that implement several encoding interfaces at once: encoding/json has its own order of preference
		// (MarshalJSON before MarshalText), and what it makes of the item is what the column shows
		switch r.Intn(4) {
		case 0:
			return c07Item{Desc: "item with MarshalJSON and a MarshalText that disagrees", item: gen.BothMarshal{ID: r.Word()}}
		case 1:
			return c07Item{Desc: "item with MarshalText only", item: gen.TextOnlyMarshal{ID: r.Str(c07ValueFam, 2)}}
		case 2:
			return c07Item{Desc: "*big.Int (MarshalJSON gives a number, MarshalText digits)", item: big.NewInt(int64(r.Range(-5, 100000)))}
		}
		return c07Item{Desc: "time.Time (both interfaces, agreeing)", item: time.Unix(int64(r.Intn(1<<31)), 0).UTC()}
	case 25:
		return c07Item{Desc: "item whose type also has Fields, AnonFields, SetProperty... methods", item: gen.Pick(r, []interface{}{gen.FielderItem{ID: r.Word()}, gen.OwnerItem{ID: r.Word()}, gen.CellishItem{ID: r.Word()}})}
	case 24:
		// comparable types whose value holds something unhashable
		if r.Bool() {
			return c07Item{Desc: "struct with an interface field holding a slice", item: gen.IfaceStruct{Kind: r.Word(), Payload: []string{"a", "b"}}}
		}
		return c07Item{Desc: "array of interfaces holding a slice", item: [2]interface{}{r.Word(), []int{1, 2}}}
	case 23:
		// encoding/json's own number type: a named string which encodes as the number literal it holds, and which the
		// encoder refuses when it does not hold one
		lit := gen.Pick(r, []string{"12.50", "0", "-3", "1e6", "12.50", "", "12 apples", "1.", "0x10"})
		_, merr := stdjson.Marshal(stdjson.Number(lit))
		return c07Item{Desc: fmt.Sprintf("json.Number(%q)", lit), item: stdjson.Number(lit), fails: merr != nil}
	case 22:
		a, b := r.Word(), r.Word()
		return c07Item{Desc: fmt.Sprintf("item holding a nested table (%s, %s) which it renders from MarshalJSON and String", a, b), item: newNestedTableItem(a, b)}
	case 0:
		if r.Bool() {
			a, b := r.Str(c07ValueFam, 3), r.Str(c07ValueFam, 3)
			switch r.Intn(4) {
			case 0:
				a = ""
			case 1:
				b = ""
			}
			return c07Item{Desc: fmt.Sprintf("mutable item without exported fields reading %q while the table is built and %q afterwards (no Update)", a, b), item: &c07Label{cur: a, whenBuilt: a, later: b}}
		}
		return c07Item{Desc: "nil", item: nil}
	case 1:
		return c07Item{Desc: "empty string", item: ""}
	case 2:
		n := r.EdgeInt()
		var it interface{} = int(n)
		switch r.Intn(8) {
		case 0:
			it = n
		case 1:
			it = uint64(n)
		case 2:
			it = int32(n)
		case 3:
			it = uint(n)
		case 4:
			it = uint8(n)
		}
		return c07Item{Desc: fmt.Sprintf("%T %d", it, it), item: it}
	case 3:
		f := r.EdgeFloat()
		if r.Chance(1, 5) {
			return c07Item{Desc: fmt.Sprintf("float32 %v", float32(f)), item: float32(f), fails: math.IsInf(float64(float32(f)), 0)}
		}
		return c07Item{Desc: fmt.Sprintf("float64 %v", f), item: f}
	case 4:
		b := r.Bool()
		return c07Item{Desc: fmt.Sprintf("bool %v", b), item: b}
	case 5:
		return c07Item{Desc: "exported-field struct", item: c07Exported{A: r.Intn(9), B: r.Str(c07TextFam, 3)}}
	case 6:
		s := r.Str(c07ValueFam, 3)
		if r.Chance(1, 4) {
			s += gen.Pick(r, []string{"\x1b[31mred\x1b[0m", "\a", "\v", "\x7f", "\x00", "\U000e0001", "\u2028", "\xff"})
		}
		return c07Item{Desc: fmt.Sprintf("field-less struct with String()=%q", s), item: c07FieldlessStringer{s}}
	case 7:
		raw := gen.Pick(r, []string{"{}", "{ }", "[1, 2]", "\"x\"", "{\"k\": {}}", "null", "17"})
		txt := gen.Pick(r, []string{"", "text form", "<b>", "\x1b[1mbold\x1b[0m", "bell\a", "nul\x00", "del\x7f", "bad\xffutf8"})
		return c07Item{Desc: fmt.Sprintf("json.Marshaler raw=%s text=%q", raw, txt), item: c07Marshaler{raw, txt}}
	case 8:
		return c07Item{Desc: "map", item: map[string]interface{}{"k": r.Intn(5), "z": []int{1, 2}}}
	case 9:
		return c07Item{Desc: "slice", item: []interface{}{1, "a", nil, true}}
	case 10:
		return c07Item{Desc: "chan (unmarshalable)", item: make(chan int), fails: true}
	case 11:
		return c07Item{Desc: "failing json.Marshaler", item: c07FailingMarshaler{}, fails: true}
	case 12:
		return c07Item{Desc: "nested Cell of text", item: tabular.NewCell(r.Str(c07ValueFam, 3))}
	case 13:
		return c07Item{Desc: "pointer to exported-field struct", item: &c07Exported{A: 1}}
	case 14:
		it := gen.TypedItem(gen.Pick(r, []string{"VS_0", "VSG_HW", "PS_0", "VE_0", "V0_0"}), r.FieldsAny(c07TextFam, 2), r.Bool())
		m := it.Make()
		return c07Item{Desc: "generated typed item " + it.Describe(), item: m.Item}
	case 15:
		if r.Bool() {
			// an error value encodes as {} and falls back to its text
			s := r.Str(c07ValueFam, 3) + gen.Pick(r, []string{"", "\x1b[0m", "\v", "\x7f"})
			return c07Item{Desc: fmt.Sprintf("error value %q", s), item: errors.New(s)}
		}
		return c07Item{Desc: "empty struct", item: struct{}{}}
	case 16:
		return c07Item{Desc: "empty map", item: map[string]int{}}
	case 17:
		return c07Item{Desc: "rune", item: 'x'}
	default:
		s := r.Str(c07ValueFam, 5)
		return c07Item{Desc: fmt.Sprintf("string %q", s), item: s}
	}
}

// c07Text is the documented text form for the JSON-specific kinds (subset of C01's oracle).
func c07Text(item interface{}) string {
	switch x := item.(type) {
	case nil:
		return ""
	case string:
		return x
	case rune:
		return string(x)
	case tabular.Cell:
		return x.String()
	case interface{ String() string }:
		return x.String()
	case interface{ GoString() string }:
		return x.GoString()
	case error:
		return x.Error()
	}
	return fmt.Sprintf("%v", item)
}

type c07Spec struct {
	HasHeader   bool          `json:"has_header"`
	Header      []gen.Q       `json:"header"`
	HeaderKinds []int         `json:"header_item_kinds"` // 0 string, 1 Stringer, 2 GoStringer+error, 3 nested cell, 4 error, 5 named string with String, 6 []byte, 7 TextMarshaler, 8 json.Marshaler, 9 struct with fields and String, 10 time.Time, 11 int, 12 pointer to named string, 13 bool
	Rows        [][]c07Item   `json:"rows"`              // nil entry = separator
	Sep         []bool        `json:"separators"`
	Skip0       interface{}   `json:"skipable_column0"` // nil unset
	Skip        []interface{} `json:"skipable_columns"` // per column 1..n, nil unset
	SetClear    bool          `json:"set_then_cleared"`
	PreHeader   int           `json:"cells_of_an_earlier_header_row_replaced_by_the_real_one,omitempty"`
	colsSeen    int
	Aligns      []int         `json:"alignment_properties_set_on_columns_0_to_n,omitempty"` // 0 unset, 1 left, 2 right, 3 centre: belongs to other renderers and must not matter here
	Staged      bool          `json:"staged_wrapper_reused"`
	StageAt     int           `json:"first_render_after_rows"`
	PreSkip     []interface{} `json:"skipable_at_first_render_column0_then_columns"`
}

func (s *c07Spec) ncols() int {
	if s.colsSeen > 0 {
		return s.colsSeen
	}
	return s.liveCols()
}

// preHeader sets the earlier header row (replaced later by the real one), if the case has one.
func (s *c07Spec) preHeader(t tabular.Table) {
	s.colsSeen = 0
	if s.PreHeader > 0 && s.HasHeader {
		hs := make([]interface{}, s.PreHeader)
		for i := range hs {
			hs[i] = fmt.Sprintf("earlier header %d", i+1)
		}
		t.AddHeaders(hs...)
	}
}

// noteCols asks the finished table how many columns it has when its history leaves that open (a wider header row
// was replaced: C02 accepts both "columns are never lost" and "the count follows the live widths").
func (s *c07Spec) noteCols(t tabular.Table) {
	if s.PreHeader > 0 && s.HasHeader {
		if n := t.NColumns(); n > s.liveCols() && n <= s.PreHeader {
			s.colsSeen = n
		}
	}
}

func (s *c07Spec) liveCols() int {
	n := 0
	if s.HasHeader {
		n = len(s.Header)
	}
	for i, r := range s.Rows {
		if !s.Sep[i] && len(r) > n {
			n = len(r)
		}
	}
	return n
}

// render builds the table and renders it: either in one go through a fresh wrapper, or (staged) through
// a wrapper created first, which renders the partial table under other skipable settings before the
// table is completed and the final settings (with withdrawals) are put in force.
func (s *c07Spec) render(c *Ctx) (string, error) {
	if !s.Staged {
		return json.Wrap(s.build()).Render()
	}
	t := tabular.New()
	jw := json.Wrap(t)
	s.preHeader(t)
	if s.HasHeader {
		t.AddHeaders(s.headerItems()...)
	}
	addRows := func(from, to int) {
		for i := from; i < to && i < len(s.Rows); i++ {
			if s.Sep[i] {
				t.AddSeparator()
				continue
			}
			items := make([]interface{}, len(s.Rows[i]))
			for j := range s.Rows[i] {
				items[j] = s.Rows[i][j].item
			}
			t.AddRowItems(items...)
		}
	}
	addRows(0, s.StageAt)
	for n, v := range s.PreSkip {
		if v != nil && n <= t.NColumns() {
			t.Column(n).SetProperty(properties.Skipable, v)
		}
	}
	o1, _ := jw.Render()
	c.Keep(o1, "an earlier Render through the same wrapper")
	addRows(s.StageAt, len(s.Rows))
	o2, _ := jw.Render()
	c.Keep(o2, "an earlier Render through the same wrapper")
	for n := 0; n <= t.NColumns(); n++ {
		var v interface{}
		if n == 0 {
			v = s.Skip0
		} else if n-1 < len(s.Skip) {
			v = s.Skip[n-1]
		}
		t.Column(n).SetProperty(properties.Skipable, v) // nil withdraws what the first render saw
	}
	s.setAligns(t)
	s.noteCols(t)
	return jw.Render()
}

// header items of other dynamic types: the key is the header's TEXT whatever the item's own JSON encoding would be
type c07NamedStr string

func (u c07NamedStr) String() string { return "S:" + string(u) }

type c07TextM struct{ S string }

func (m c07TextM) MarshalText() ([]byte, error) { return []byte("tm:" + m.S), nil }
func (m c07TextM) String() string               { return m.S }

type c07JSONM struct{ S string }

func (m c07JSONM) MarshalJSON() ([]byte, error) { return stdjson.Marshal("mj:" + m.S) }
func (m c07JSONM) String() string               { return m.S }

type c07Tagged struct {
	N int
	S string `json:"-"`
}

func (m c07Tagged) String() string { return m.S }

const c07HeaderKinds = 14

// kinds whose text is the header text itself
var c07TextKeepingKinds = []int{0, 1, 3, 4, 7, 8, 9}

func (s *c07Spec) headerItem(i int) interface{} {
	txt := string(s.Header[i])
	kind := 0
	if i < len(s.HeaderKinds) {
		kind = s.HeaderKinds[i]
	}
	switch kind {
	case 1:
		return gen.VS_0{S: txt} // a Stringer whose text is the header
	case 2:
		return &gen.PGE_0{G: txt, E: "<wrong: Error>"} // GoString wins over Error
	case 3:
		return tabular.NewCell(txt) // nested cell
	case 4:
		return errors.New(txt)
	case 5:
		return c07NamedStr(txt) // encodes as the JSON string txt, reads "S:"+txt
	case 6:
		return []byte(txt) // encodes as a base64 string, reads as a list of numbers
	case 7:
		return c07TextM{txt}
	case 8:
		return c07JSONM{txt}
	case 9:
		return c07Tagged{N: i, S: txt}
	case 10:
		return time.Unix(1000000000+int64(i)*86400+int64(len(txt)), 0).UTC()
	case 11:
		return i*1000 + len(txt)
	case 12:
		u := c07NamedStr(txt)
		return &u
	case 13:
		return i%2 == 0
	}
	return txt
}

// headerText is the text of header i (the text form itself is C01's business).
func (s *c07Spec) headerText(i int) string { return c07Text(s.headerItem(i)) }

func (s *c07Spec) headerItems() []interface{} {
	hs := make([]interface{}, len(s.Header))
	for i := range hs {
		hs[i] = s.headerItem(i)
	}
	return hs
}

// labels sets every label item to the text it has while the table is being built, or to its later text.
func (s *c07Spec) labels(later bool) {
	for _, r := range s.Rows {
		for _, it := range r {
			if l, ok := it.item.(*c07Label); ok {
				l.cur = l.whenBuilt
				if later {
					l.cur = l.later
				}
			}
		}
	}
}

func (s *c07Spec) build() *tabular.ATable {
	t := tabular.New()
	s.labels(false)
	defer s.labels(true)
	s.preHeader(t)
	if s.HasHeader {
		t.AddHeaders(s.headerItems()...)
	}
	for i, r := range s.Rows {
		if s.Sep[i] {
			t.AddSeparator()
			continue
		}
		items := make([]interface{}, len(r))
		for j := range r {
			items[j] = r[j].item
		}
		t.AddRowItems(items...)
	}
	if s.Skip0 != nil {
		t.Column(0).SetProperty(properties.Skipable, s.Skip0)
	}
	for i, v := range s.Skip {
		if v != nil && i+1 <= t.NColumns() {
			if s.SetClear {
				t.Column(i+1).SetProperty(properties.Skipable, "garbage to be cleared")
				t.Column(i+1).SetProperty(properties.Skipable, nil)
			}
			t.Column(i+1).SetProperty(properties.Skipable, v)
		}
	}
	s.setAligns(t)
	s.noteCols(t)
	return t
}

func (s *c07Spec) setAligns(t tabular.Table) {
	for n, a := range s.Aligns {
		if a != 0 && n <= t.NColumns() {
			t.Column(n).SetProperty(align.PropertyType, alignVals[a])
		}
	}
}

// expectError returns a non-empty reason when the statement requires an error.
func (s *c07Spec) expectError() string {
	n := s.ncols()
	if n == 0 {
		return "no columns"
	}
	if !s.HasHeader {
		return "missing headers"
	}
	if len(s.Header) < n {
		return "too few headers"
	}
	seen := map[string]bool{}
	for i := 0; i < n; i++ {
		h := s.headerText(i)
		if h == "" {
			return "empty header"
		}
		if seen[h] {
			return "duplicate header"
		}
		seen[h] = true
	}
	if s.Skip0 != nil {
		if _, ok := s.Skip0.(bool); !ok {
			return "non-boolean skipable on column 0"
		}
	}
	for i, v := range s.Skip {
		if i < n && v != nil {
			if _, ok := v.(bool); !ok {
				return "non-boolean skipable on a column"
			}
		}
	}
	for i, r := range s.Rows {
		if s.Sep[i] {
			continue
		}
		for j := range r {
			if r[j].fails && !s.skipped(j, r[j]) {
				return "item cannot be JSON-encoded"
			}
		}
	}
	return ""
}

func (s *c07Spec) skipable(col int) bool {
	if col < len(s.Skip) && s.Skip[col] != nil {
		b, _ := s.Skip[col].(bool)
		return b
	}
	if s.Skip0 != nil {
		b, _ := s.Skip0.(bool)
		return b
	}
	return false
}

func (s *c07Spec) skipped(col int, it c07Item) bool {
	return s.skipable(col) && it.txt() == ""
}

type c07Obj struct {
	keys []string
	vals map[string]stdjson.RawMessage
}

// c07Decode reads the output as an array of objects, rejecting duplicate keys and trailing data.
func c07Decode(out string) ([]c07Obj, error) {
	if !stdjson.Valid([]byte(out)) {
		return nil, fmt.Errorf("encoding/json rejects the output as invalid JSON")
	}
	dec := stdjson.NewDecoder(strings.NewReader(out))
	tok, err := dec.Token()
	if err != nil {
		return nil, err
	}
	if d, ok := tok.(stdjson.Delim); !ok || d != '[' {
		return nil, fmt.Errorf("top-level value is not an array")
	}
	var objs []c07Obj
	for dec.More() {
		tok, err := dec.Token()
		if err != nil {
			return nil, err
		}
		if d, ok := tok.(stdjson.Delim); !ok || d != '{' {
			return nil, fmt.Errorf("array element %d is not an object", len(objs))
		}
		o := c07Obj{vals: map[string]stdjson.RawMessage{}}
		for dec.More() {
			kt, err := dec.Token()
			if err != nil {
				return nil, err
			}
			k, ok := kt.(string)
			if !ok {
				return nil, fmt.Errorf("object key is not a string")
			}
			if _, dup := o.vals[k]; dup {
				return nil, fmt.Errorf("object %d has duplicate key %q", len(objs), k)
			}
			var raw stdjson.RawMessage
			if err := dec.Decode(&raw); err != nil {
				return nil, err
			}
			o.keys = append(o.keys, k)
			o.vals[k] = raw
		}
		if _, err := dec.Token(); err != nil {
			return nil, err
		}
		objs = append(objs, o)
	}
	if _, err := dec.Token(); err != nil {
		return nil, err
	}
	if _, err := dec.Token(); err != io.EOF {
		return nil, fmt.Errorf("data after the closing bracket")
	}
	return objs, nil
}

func c07SameJSON(a, b []byte) bool {
	var ca, cb bytes.Buffer
	if stdjson.Compact(&ca, a) == nil && stdjson.Compact(&cb, b) == nil && bytes.Equal(ca.Bytes(), cb.Bytes()) {
		return true
	}
	var va, vb interface{}
	da := stdjson.NewDecoder(bytes.NewReader(a))
	da.UseNumber()
	db := stdjson.NewDecoder(bytes.NewReader(b))
	db.UseNumber()
	if da.Decode(&va) != nil || db.Decode(&vb) != nil {
		return false
	}
	return reflect.DeepEqual(va, vb)
}

func c07Check(c *Ctx, s *c07Spec, sigExtra string, sample bool) {
	c.Case = s
	out, err := s.render(c)
	if s.Staged {
		c.Rec.Count("staged_cases(render, change, render again through the same wrapper)", 1)
	}
	want := s.expectError()
	seps := 0
	for _, b := range s.Sep {
		if b {
			seps++
		}
	}
	c.Rec.Eval(gen.Hash64(fmt.Sprintf("%v|%v|%v|%v|%v", s.Header, s.Sep, s.Skip0, s.Skip, sigExtra), c07RowsSig(s)), len(s.Rows) > 0)
	if err != nil && out != "" {
		c.Rec.Violate("json:text-with-error", fmt.Sprintf("Render returned %d bytes of text together with error %v", len(out), err), s)
		return
	}
	invalidHeader := false
	for hi := range s.Header {
		if !utf8.ValidString(s.headerText(hi)) {
			invalidHeader = true
		}
	}
	if want != "" {
		c.Rec.Count("misconfigurations_tried:"+want, 1)
		if err == nil {
			c.Rec.Violate("json:no-error:"+want, fmt.Sprintf("configuration with %s rendered without error; output %q", want, out), s)
		}
		return
	}
	if err != nil {
		c.Rec.Count("renders_refused_although_well_formed", 1)
		return
	}
	if invalidHeader {
		c.Rec.Count("invalid_utf8_header_tables(no-panic only)", 1)
		return
	}
	c.Rec.Count("outputs_decoded", 1)
	if seps > 0 {
		c.Rec.Count("outputs_decoded_with_separators", 1)
	}
	if sample && c.Rec.WantSample() && len(s.Rows) > 1 {
		c.Rec.Sample(map[string]interface{}{"table": s, "output": gen.Q(out)})
	}
	objs, derr := c07Decode(out)
	if derr != nil {
		key := "json:invalid-output"
		if len(s.Sep) > 0 && s.Sep[len(s.Sep)-1] {
			key = "json:invalid-output:separator-after-last-object"
		}
		c.Rec.Violate(key, fmt.Sprintf("output does not decode: %v; output %q", derr, out), s)
		return
	}
	// expected objects
	var body [][]c07Item
	for i, r := range s.Rows {
		if !s.Sep[i] {
			body = append(body, r)
		}
	}
	if len(objs) != len(body) {
		c.Rec.Violate("json:object-count", fmt.Sprintf("array has %d objects, table has %d non-separator rows; output %q", len(objs), len(body), out), s)
		return
	}
	for ri, row := range body {
		wantKeys := map[string][]byte{}
		for col, it := range row {
			if s.skipped(col, it) {
				c.Rec.Count("cells_expected_omitted_as_skipable", 1)
				continue
			}
			enc, merr := stdjson.Marshal(it.item)
			if merr != nil {
				continue
			}
			if bytes.Equal(enc, []byte("{}")) {
				if txt := it.txt(); txt != "" {
					enc, _ = stdjson.Marshal(txt)
					c.Rec.Count("empty_object_fallbacks_to_text", 1)
				}
			}
			wantKeys[s.headerText(col)] = enc
		}
		got := objs[ri]
		for k, wv := range wantKeys {
			gv, ok := got.vals[k]
			if !ok {
				c.Rec.Violate("json:key-missing", fmt.Sprintf("object %d lacks key %q (has %q); output %q", ri, k, got.keys, out), s)
				return
			}
			c.Rec.Count("values_compared", 1)
			if !c07SameJSON(gv, wv) {
				c.Rec.Violate("json:value-differs", fmt.Sprintf("object %d key %q has value %s, expected %s", ri, k, gv, wv), s)
				return
			}
		}
		for _, k := range got.keys {
			if _, ok := wantKeys[k]; !ok {
				c.Rec.Violate("json:unexpected-key", fmt.Sprintf("object %d has key %q which the row should not produce (absent cell, or empty cell in a skipable column); output %q", ri, k, out), s)
				return
			}
		}
	}
}

func c07RowsSig(s *c07Spec) string {
	var b strings.Builder
	for i, r := range s.Rows {
		if s.Sep[i] {
			b.WriteString("-|")
			continue
		}
		for _, it := range r {
			b.WriteString(it.Desc)
			b.WriteByte(',')
		}
		b.WriteByte('|')
	}
	return b.String()
}

func c07Headers(r *gen.R, n int) []gen.Q {
	hs := make([]gen.Q, n)
	seen := map[string]bool{}
	for i := range hs {
		for try := 0; ; try++ {
			h := r.StrN(c07TextFam, r.Range(1, 4))
			if try > 5 {
				h = fmt.Sprintf("col%d", i)
			}
			if h != "" && !seen[h] && utf8.ValidString(h) {
				seen[h] = true
				hs[i] = gen.Q(h)
				break
			}
		}
	}
	return hs
}

func c07Random(c *Ctx, i int, r *gen.R) {
	n := r.Range(1, 5)
	if r.Chance(1, 60) {
		n = gen.Pick(r, []int{17, 33, 64, 65, 66, 70, 129, 130, 257}) // far more columns than any fixed-size per-column bookkeeping
	}
	s := &c07Spec{HasHeader: true, Header: c07Headers(r, n)}
	if r.Chance(1, 3) {
		s.HeaderKinds = make([]int, n)
		for k := range s.HeaderKinds {
			s.HeaderKinds[k] = r.Intn(c07HeaderKinds)
		}
	}
	nrows := r.Range(0, 6)
	for k := 0; k < nrows; k++ {
		if r.Chance(1, 4) {
			s.Rows = append(s.Rows, nil)
			s.Sep = append(s.Sep, true)
			continue
		}
		m := n
		if r.Chance(1, 3) {
			m = r.Range(0, n)
		}
		row := make([]c07Item, m)
		for j := range row {
			row[j] = c07RandomItem(r)
			if row[j].fails && (n > 8 || !r.Chance(1, 6)) {
				row[j] = c07Item{Desc: "string", item: "plain"}
			}
		}
		s.Rows = append(s.Rows, row)
		s.Sep = append(s.Sep, false)
	}
	skipv := func() interface{} {
		switch r.Intn(4) {
		case 0:
			return true
		case 1:
			return false
		}
		return nil
	}
	s.Skip0 = skipv()
	s.Skip = make([]interface{}, n)
	for j := range s.Skip {
		s.Skip[j] = skipv()
	}
	s.SetClear = r.Chance(1, 5)
	if r.Chance(1, 10) {
		s.PreHeader = r.Range(1, n+2)
	}
	if r.Chance(1, 4) {
		s.Aligns = make([]int, n+1)
		for k := range s.Aligns {
			s.Aligns[k] = r.Intn(4)
		}
	}
	// negative configurations
	switch r.Intn(14) {
	case 0:
		s.HasHeader = false
	case 1:
		if n > 1 {
			s.Header = s.Header[:r.Range(1, n-1)]
			// make sure some row is wider than the header
			s.Rows = append(s.Rows, make([]c07Item, n))
			for j := 0; j < n; j++ {
				s.Rows[len(s.Rows)-1][j] = c07Item{Desc: "string", item: "w"}
			}
			s.Sep = append(s.Sep, false)
		}
	case 2:
		k := r.Intn(n)
		s.Header[k] = ""
		if s.HeaderKinds != nil {
			s.HeaderKinds[k] = gen.Pick(r, c07TextKeepingKinds)
		}
	case 3:
		if n > 1 {
			a := r.Intn(n)
			b := (a + 1 + r.Intn(n-1)) % n
			s.Header[b] = s.Header[a]
			if s.HeaderKinds != nil {
				// the same text from items of possibly different dynamic types is still a duplicate
				s.HeaderKinds[a], s.HeaderKinds[b] = gen.Pick(r, c07TextKeepingKinds), gen.Pick(r, c07TextKeepingKinds)
			}
		}
	case 4:
		s.Skip0 = gen.Pick(r, []interface{}{"yes", 1, 0.0, []bool{true}, struct{}{}, c07Tri(true), c07Tri(false), new(bool)})
	case 5:
		s.Skip[r.Intn(n)] = gen.Pick(r, []interface{}{"true", 1, 'y', c07Tri(true), c07TriS(false)})
	case 6:
		// no columns at all
		s.Header = nil
		s.HasHeader = r.Bool()
		s.Rows, s.Sep = nil, nil
		for k := r.Intn(3); k > 0; k-- {
			if r.Bool() {
				s.Rows, s.Sep = append(s.Rows, nil), append(s.Sep, true)
			} else {
				s.Rows, s.Sep = append(s.Rows, []c07Item{}), append(s.Sep, false)
			}
		}
		s.Skip = nil
	case 7:
		// header that is not valid UTF-8: no-panic only
		s.Header[r.Intn(n)] = gen.Q("bad\xff" + r.Word())
	}
	if r.Chance(1, 2) {
		s.Staged, s.StageAt = true, r.Range(0, len(s.Rows))
		s.PreSkip = make([]interface{}, n+1)
		for k := range s.PreSkip {
			s.PreSkip[k] = skipv()
		}
	}
	c07Check(c, s, "", true)
}

// every separator placement for n <= 5 rows, with 3 row flavours
func c07Separators(c *Ctx, i int, r *gen.R) {
	// decode: n in 0..5, mask in 0..2^n-1, flavour 0..2
	flavour := i % 3
	k := i / 3
	n := 0
	for k >= 1<<n {
		k -= 1 << n
		n++
	}
	mask := k
	s := &c07Spec{HasHeader: true, Header: []gen.Q{"a", "b"}, Skip: make([]interface{}, 2)}
	if flavour == 2 {
		s.Skip0 = true
	}
	for j := 0; j < n; j++ {
		if mask&(1<<j) != 0 {
			s.Rows, s.Sep = append(s.Rows, nil), append(s.Sep, true)
			continue
		}
		var row []c07Item
		switch flavour {
		case 0:
			row = []c07Item{{Desc: "int", item: j}, {Desc: "string", item: "v"}}
		case 1:
			row = []c07Item{{Desc: "string", item: "only"}}
		case 2:
			row = []c07Item{{Desc: "nil", item: nil}, {Desc: "empty string", item: ""}}
		}
		s.Rows, s.Sep = append(s.Rows, row), append(s.Sep, false)
	}
	c07Check(c, s, fmt.Sprintf("sep-%d-%d-%d", n, mask, flavour), i%40 == 5)
}

// every skipable assignment {unset,true,false} to column 0 and 3 columns, on a table with empties everywhere
func c07Skipables(c *Ctx, i int, r *gen.R) {
	vals := []interface{}{nil, true, false}
	s := &c07Spec{HasHeader: true, Header: []gen.Q{"a", "b", "c"}}
	s.Skip0 = vals[i%3]
	s.Skip = []interface{}{vals[(i/3)%3], vals[(i/9)%3], vals[(i/27)%3]}
	s.SetClear = (i/81)%2 == 1
	e := func() c07Item { return c07Item{Desc: "empty string", item: ""} }
	nl := func() c07Item { return c07Item{Desc: "nil", item: nil} }
	x := func(v string) c07Item { return c07Item{Desc: "string", item: v} }
	es := func() c07Item {
		return c07Item{Desc: "field-less Stringer with empty text", item: c07FieldlessStringer{""}}
	}
	s.Rows = [][]c07Item{{x("1"), x("2"), x("3")}, {e(), x("2"), nl()}, {nl(), e(), es()}, {x("1")}, {}, {e(), e()}, nil, {x("z"), nl(), e()}}
	s.Sep = []bool{false, false, false, false, false, false, true, false}
	if i%2 == 1 {
		s.Staged, s.StageAt = true, i%5
		s.PreSkip = []interface{}{vals[(i/2)%3], vals[(i/5)%3], vals[(i/7)%3], vals[(i/11)%3]}
	}
	c07Check(c, s, fmt.Sprintf("skip-%d", i), i%30 == 2)
}

func init() {
	register(&Prop{
		ID:    "C07",
		Level: "exploration",
		Rule: "phase 0 (exhaustive): every placement of separators among n<=5 rows (2^n masks) x 3 row flavours (full rows, short rows, all-empty rows in skipable columns); phase 1 (exhaustive): every assignment of {unset,true,false} to column 0 and 3 columns (81) x {direct, set-garbage-then-clear-then-set} on a table with empty/nil cells in every position, a short row, a zero-cell row and a separator; " +
			"phase 2: random tables of 1-5 columns x 0-6 rows with unique non-empty valid-UTF-8 headers from ascii+html+md+wide+LF+csv+emoji alphabets (a third of the tables with header items of 13 other dynamic types instead of strings: Stringers, GoStringer+error types, nested cells, errors, a named string type whose String differs from its value, []byte, TextMarshaler and json.Marshaler types whose encoding is a different string, a struct with fields, time.Time, int, bool, pointer to a named string; the key must be the header's text whatever the item's own encoding), items of 18 JSON kinds (incl. field-less struct with String, json.Marshaler, nested Cell, chan, failing Marshaler), ragged/zero-cell rows, separators, random skipable assignments, and with probability 1/2 one of the listed misconfigurations (no header, too few headers, empty header, duplicate header, no columns, non-bool skipable on column 0 / a column) or an invalid-UTF-8 header (no-panic only). " +
			"Output decoded with encoding/json (duplicate-key-aware token pass) and compared with the model. Distinct = distinct (headers, row kinds, separators, skipable assignment); non-trivial = at least one row.",
		Assumptions: []string{
			"values are compared as JSON values (compact bytes, else decoded equality), keys as decoded strings; key order and whitespace are not asserted",
			"headers that are not valid UTF-8 cannot be carried by JSON; such tables are checked for no-panic and error-implies-no-text only",
			"an error for a well-formed table is counted, not alarmed on",
		},
		Phases: []Phase{
			{Name: "all separator placements for n<=5 rows x 3 flavours", Exhaustive: true, N: Fixed(63*3, 63*3), Run: c07Separators},
			{Name: "all skipable assignments to column 0 and 3 columns x 2 ways of setting", Exhaustive: true, N: Fixed(162, 162), Run: c07Skipables},
			{Name: "random tables and misconfigurations", N: Fixed(5000, 3000000), Run: c07Random},
		},
	})
}
