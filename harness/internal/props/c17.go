package props

import (
	"fmt"
	"os"
	"os/exec"
	"regexp"
	"runtime"
	"sort"
	"strings"
	"sync"
	"sync/atomic"
	"time"

	"github.com/anishathalye/porcupine"

	"go.pennock.tech/tabular"
	"go.pennock.tech/tabular/auto"
	"go.pennock.tech/tabular/texttable"
	"go.pennock.tech/tabular/texttable/decoration"

	"verifharness/internal/gen"
)

// C17 - the decoration registry is safe under concurrency and fails closed.
//
// Monitors: the Go race detector (this check is built with -race; the parent
// parses the detector's log), a recorded client-boundary history checked
// against a sequential map with porcupine, and a sequence monitor for the
// fail-closed part.

var c17Builtins = []string{decoration.D_ASCII_SIMPLE, decoration.D_NONE, decoration.D_UTF8_LIGHT, decoration.D_UTF8_LIGHT_CURVED, decoration.D_UTF8_HEAVY, decoration.D_UTF8_DOUBLE}

type c17In struct {
	Op   byte // 'R' register, 'N' named, 'L' list
	Name string
	Val  string // registered value id
}

type c17Out struct {
	Val   string   // Named: value id observed ("" = empty decoration)
	Names []string // List: names of this history's namespace, as returned (order kept)
}

func c17StateGet(st, name string) string {
	for _, kv := range strings.Split(st, ";") {
		if i := strings.IndexByte(kv, '='); i >= 0 && kv[:i] == name {
			return kv[i+1:]
		}
	}
	return ""
}

func c17StateSet(st, name, val string) string {
	m := map[string]string{}
	for _, kv := range strings.Split(st, ";") {
		if i := strings.IndexByte(kv, '='); i >= 0 {
			m[kv[:i]] = kv[i+1:]
		}
	}
	m[name] = val
	keys := make([]string, 0, len(m))
	for k := range m {
		keys = append(keys, k)
	}
	sort.Strings(keys)
	var b strings.Builder
	for _, k := range keys {
		b.WriteString(k + "=" + m[k] + ";")
	}
	return b.String()
}

func c17StateKeys(st string) []string {
	var keys []string
	for _, kv := range strings.Split(st, ";") {
		if i := strings.IndexByte(kv, '='); i >= 0 {
			keys = append(keys, kv[:i])
		}
	}
	sort.Strings(keys)
	return keys
}

// the sequential specification: a map from name to the last value registered
var c17Model = porcupine.Model{
	Init: func() interface{} { return "" },
	Step: func(state, input, output interface{}) (bool, interface{}) {
		st := state.(string)
		in := input.(c17In)
		out := output.(c17Out)
		switch in.Op {
		case 'R':
			return true, c17StateSet(st, in.Name, in.Val)
		case 'N':
			return out.Val == c17StateGet(st, in.Name), st
		case 'L':
			keys := c17StateKeys(st)
			if len(keys) != len(out.Names) {
				return false, st
			}
			for i := range keys {
				if keys[i] != out.Names[i] {
					return false, st
				}
			}
			return true, st
		}
		return false, st
	},
	DescribeOperation: func(input, output interface{}) string {
		in := input.(c17In)
		out := output.(c17Out)
		switch in.Op {
		case 'R':
			return fmt.Sprintf("Register(%s,%s)", in.Name, in.Val)
		case 'N':
			return fmt.Sprintf("Named(%s)->%q", in.Name, out.Val)
		}
		return fmt.Sprintf("List()->%v", out.Names)
	},
}

func c17Value(id string) decoration.Decoration {
	d := decoration.Decoration{Horizontal: id, Vertical: "|", CrossPiece: "+"}
	d.Populate()
	d.Horizontal = id // Horizontal is not used for rendering; it carries the identity of the write
	return d
}

// the top rule of a table drawn with c17Value(id) is "+" followed by id repeated
var c17RuleID = regexp.MustCompile(`^\+(c[0-9]+-[0-9]+)`)

type c17OpRec struct {
	Client int    `json:"client"`
	Call   int64  `json:"call"`
	Return int64  `json:"return"`
	Desc   string `json:"op"`
}

// c17KeptErrs: errors the library handed out for unknown names, kept by the program (process-wide, up to 64) and
// formatted again later from whatever goroutine comes by.
type c17ErrKeeper struct {
	mu   sync.Mutex
	errs []error
}

var c17KeptErrs c17ErrKeeper

func (k *c17ErrKeeper) keep(err error) {
	k.mu.Lock()
	if len(k.errs) < 64 {
		k.errs = append(k.errs, err)
	} else {
		k.errs[len(err.Error())%64] = err
	}
	k.mu.Unlock()
}

func (k *c17ErrKeeper) formatSome() {
	k.mu.Lock()
	errs := append([]error{}, k.errs...)
	k.mu.Unlock()
	for i, e := range errs {
		if i%4 == 0 {
			_ = e.Error()
			_ = fmt.Sprintf("%v", e)
		}
	}
}

func c17Concurrent(c *Ctx, i int, r *gen.R) {
	ns := fmt.Sprintf("h%d-%d-", c.Shard, i)
	names := []string{ns + "a", ns + "b", ns + "c", ns + "d"}[:r.Range(1, 4)]
	clients := r.Range(2, 8)
	opsPer := r.Range(2, 8)
	// pre-draw every client's script so the run itself contains no PRNG calls
	type step struct {
		op   byte
		name string
		val  string
	}
	scripts := make([][]step, clients)
	for cl := range scripts {
		for k := 0; k < opsPer; k++ {
			name := names[r.Intn(len(names))]
			switch r.Intn(6) {
			case 0, 1:
				scripts[cl] = append(scripts[cl], step{'R', name, fmt.Sprintf("c%d-%d", cl, k)})
			case 2, 3:
				scripts[cl] = append(scripts[cl], step{'N', name, ""})
			case 4:
				scripts[cl] = append(scripts[cl], step{'T', name, ""})
			default:
				scripts[cl] = append(scripts[cl], step{'L', "", ""})
			}
		}
	}
	var clock int64
	var mu sync.Mutex
	var ops []porcupine.Operation
	var recs []c17OpRec
	var listProblems []string
	run := func(cl int, s step) {
		in := c17In{Op: s.op, Name: s.name, Val: s.val}
		var out c17Out
		call := atomic.AddInt64(&clock, 1)
		switch s.op {
		case 'R':
			decoration.RegisterDecorationName(s.name, c17Value(s.val))
			c17KeptErrs.formatSome() // errors handed out earlier are printed again at any later time
		case 'N':
			d := decoration.Named(s.name)
			if d != decoration.EmptyDecoration {
				out.Val = d.Horizontal
			}
		case 'T':
			// a render by name: the decoration the table was drawn with names the registration it observed
			in.Op = 'N'
			tt := texttable.New()
			tt.AddRowItems("x")
			if _, err := tt.SetDecorationNamed(s.name); err == nil {
				text, rerr := tt.Render()
				m := c17RuleID.FindStringSubmatch(text)
				if rerr != nil || m == nil {
					mu.Lock()
					listProblems = append(listProblems, fmt.Sprintf("render by name %q: SetDecorationNamed succeeded but Render gave %q, %v", s.name, text, rerr))
					mu.Unlock()
				} else {
					out.Val = m[1]
					c.Rec.Count("renders_by_name_identifying_a_registration", 1)
				}
			} else {
				// the error is the caller's to keep, print and compare - now, while others go on registering, and later
				msg := err.Error() + fmt.Sprintf(" %v %+v %#v", err, err, err.Error())
				c17KeptErrs.keep(err)
				c.Rec.Count("errors_for_unknown_names_formatted_while_registrations_go_on", 1)
				if text, rerr := tt.Render(); rerr == nil || text != "" {
					mu.Lock()
					listProblems = append(listProblems, fmt.Sprintf("render by name %q: SetDecorationNamed failed (%s) but Render gave %q, %v", s.name, msg, text, rerr))
					mu.Unlock()
				}
			}
		case 'L':
			all := decoration.RegisteredDecorationNames()
			if p := c17ListProblems(all); p != "" {
				mu.Lock()
				listProblems = append(listProblems, p)
				mu.Unlock()
			}
			for _, n := range all {
				if strings.HasPrefix(n, ns) {
					out.Names = append(out.Names, n)
				}
			}
			// the listing belongs to the caller: scribbling over it must not disturb anyone else
			for k := range all {
				all[k] = "\uffff"
			}
			_ = append(all, "\uffff", "\uffff", "\uffff", "\uffff", "\uffff")
		}
		ret := atomic.AddInt64(&clock, 1)
		mu.Lock()
		ops = append(ops, porcupine.Operation{ClientId: cl, Input: in, Call: call, Output: out, Return: ret})
		recs = append(recs, c17OpRec{cl, call, ret, c17Model.DescribeOperation(in, out)})
		mu.Unlock()
	}
	var wg sync.WaitGroup
	start := make(chan struct{})
	for cl := 0; cl < clients; cl++ {
		wg.Add(1)
		go func(cl int) {
			defer wg.Done()
			<-start
			for _, s := range scripts[cl] {
				run(cl, s)
				if cl%3 == 1 {
					runtime.Gosched()
				}
			}
		}(cl)
	}
	close(start)
	wg.Wait()
	// after all registrations have finished: one lookup per name and one listing, in real time after everything
	for _, n := range names {
		run(0, step{'N', n, ""})
	}
	run(0, step{'L', "", ""})

	sort.Slice(recs, func(a, b int) bool { return recs[a].Call < recs[b].Call })
	desc := map[string]interface{}{"namespace": ns, "clients": clients, "history": recs}
	c.Case = desc
	// interleaving signature: the order of client ids by call stamp
	var sig strings.Builder
	for _, rc := range recs {
		fmt.Fprintf(&sig, "%d,", rc.Client)
	}
	c.Rec.Eval(gen.Hash64(sig.String(), fmt.Sprint(scripts)), true)
	c.Rec.Count("operations_recorded", int64(len(ops)))
	c.Rec.Count("histories_checked", 1)
	overlap := 0
	for a := range ops {
		for b := a + 1; b < len(ops); b++ {
			if ops[a].ClientId != ops[b].ClientId && ops[a].Call < ops[b].Return && ops[b].Call < ops[a].Return {
				overlap++
			}
		}
	}
	c.Rec.Count("overlapping_operation_pairs", int64(overlap))
	if overlap > 0 {
		c.Rec.Count("histories_with_overlapping_operations", 1)
	}
	if len(listProblems) > 0 {
		c.Rec.Violate("listing-or-render-malformed", "during concurrent registration: "+listProblems[0], desc)
		return
	}
	res, _ := porcupine.CheckOperationsVerbose(c17Model, ops, 20*time.Second)
	switch res {
	case porcupine.Ok:
		c.Rec.Count("porcupine_ok", 1)
	case porcupine.Illegal:
		c.Rec.Count("porcupine_illegal", 1)
		c.Rec.Violate("history-not-linearizable", fmt.Sprintf("the recorded history of %d operations by %d clients on names %v is not linearizable with respect to a sequential name->decoration map (a lookup returned a value never/no longer registered, or a listing missed a completed registration)", len(ops), clients, names), desc)
	default:
		c.Rec.Count("porcupine_unknown", 1)
		c.Rec.Inconclusive(fmt.Sprintf("porcupine timed out on a history of %d operations", len(ops)))
	}
	if c.Rec.WantSample() && i%25 == 1 {
		c.Rec.Sample(desc)
	}
}

// c17ListProblems checks one listing: sorted, duplicate-free, all built-ins present.
func c17ListProblems(all []string) string {
	if !sort.StringsAreSorted(all) {
		return fmt.Sprintf("not sorted: %q", all)
	}
	have := map[string]bool{}
	for k, n := range all {
		if k > 0 && all[k-1] == n {
			return fmt.Sprintf("duplicate %q", n)
		}
		have[n] = true
	}
	for _, b := range c17Builtins {
		if !have[b] {
			return fmt.Sprintf("built-in %q missing", b)
		}
	}
	return ""
}

// sequential histories: direct comparison with a Go map (overwrite semantics, last writer wins)
// c17BuiltinValue is what the built-in name stands for: the package's own constructor.
func c17BuiltinValue(name string) decoration.Decoration {
	switch name {
	case decoration.D_ASCII_SIMPLE:
		return decoration.ASCIIBoxSimple()
	case decoration.D_NONE:
		return decoration.NoBox()
	case decoration.D_UTF8_LIGHT:
		return decoration.UTF8BoxLight()
	case decoration.D_UTF8_LIGHT_CURVED:
		return decoration.UTF8BoxLightCurved()
	case decoration.D_UTF8_HEAVY:
		return decoration.UTF8BoxHeavy()
	case decoration.D_UTF8_DOUBLE:
		return decoration.UTF8BoxDouble()
	}
	return decoration.EmptyDecoration
}

func c17Sequential(c *Ctx, i int, r *gen.R) {
	ns := fmt.Sprintf("s%d-%d-", c.Shard, i)
	model := map[string]string{}
	modelVal := map[string]decoration.Decoration{}
	var log []string
	desc := map[string]interface{}{"namespace": ns}
	c.Case = desc
	n := r.Range(3, 30)
	for k := 0; k < n; k++ {
		name := ns + string(rune('a'+r.Intn(4)))
		switch r.Intn(4) {
		case 0, 1:
			id := fmt.Sprintf("v%d", k)
			if r.Bool() {
				// the same VALUE under several names (and again under the same name): names are independent of each other
				// whatever they hold, so a later registration under one of them is nobody else's business
				id = fmt.Sprintf("v%d", r.Intn(3))
			}
			val, shape := c17Value(id), "completed by Populate"
			switch r.Intn(7) {
			case 6:
				// the very value a built-in name holds
				b := c17Builtins[r.Intn(len(c17Builtins))]
				val, shape = c17BuiltinValue(b), "the value of the built-in "+b
				id = val.Horizontal
			}
			switch r.Intn(6) {
			case 0:
				// only the template fields, never run through Populate: the registry stores what it is given
				val, shape = decoration.Decoration{Horizontal: id, Vertical: "|", CrossPiece: "+"}, "template fields only, not populated"
			case 1:
				val, shape = decoration.Decoration{Horizontal: id, VBodyInner: "|", HRule: "-"}, "three pieces only, not populated"
			}
			decoration.RegisterDecorationName(name, val)
			model[name] = id
			modelVal[name] = val
			log = append(log, fmt.Sprintf("Register(%s,%s [%s])", name, id, shape))
		case 2:
			d := decoration.Named(name)
			got := ""
			if d != decoration.EmptyDecoration {
				got = d.Horizontal
			}
			log = append(log, fmt.Sprintf("Named(%s)->%q", name, got))
			desc["history"] = log
			if got != model[name] {
				c.Rec.Violate("sequential-lookup", fmt.Sprintf("Named(%s) returned %q; the last registration was %q", name, got, model[name]), desc)
				return
			}
			if want, ok := modelVal[name]; ok && d != want {
				c.Rec.Violate("sequential-lookup-value", fmt.Sprintf("Named(%s) returned a decoration which differs from the one registered", name), desc)
				return
			}
		case 3:
			all := decoration.RegisteredDecorationNames()
			log = append(log, "List()")
			desc["history"] = log
			if p := c17ListProblems(all); p != "" {
				c.Rec.Violate("listing-malformed", p, desc)
				return
			}
			var mine []string
			for _, x := range all {
				if strings.HasPrefix(x, ns) {
					mine = append(mine, x)
				}
			}
			want := make([]string, 0, len(model))
			for k := range model {
				want = append(want, k)
			}
			sort.Strings(want)
			if fmt.Sprint(mine) != fmt.Sprint(want) {
				c.Rec.Violate("sequential-listing", fmt.Sprintf("listing restricted to this history is %v, registered so far %v", mine, want), desc)
				return
			}
		}
	}
	c.Rec.Eval(gen.Hash64("seq", fmt.Sprint(log)), true)
	c.Rec.Count("sequential_operations", int64(len(log)))
	// at the end every name of the history holds what was registered under it last, and the built-ins what they were born with
	desc["history"] = log
	for name, want := range modelVal {
		c.Rec.Count("names_looked_up_at_the_end_of_a_history", 1)
		if got := decoration.Named(name); got != want {
			c.Rec.Violate("sequential-lookup-value:at-the-end", fmt.Sprintf("at the end of the history Named(%s) differs from the decoration registered under it last (Horizontal %q, registered %q)", name, got.Horizontal, want.Horizontal), desc)
			return
		}
	}
	for _, b := range c17Builtins {
		if got := decoration.Named(b); got != c17BuiltinValue(b) {
			c.Rec.Violate("built-in-changed", fmt.Sprintf("Named(%s) no longer returns the built-in decoration (TopLeft %q, Horizontal %q), although nothing was registered under that name", b, got.TopLeft, got.Horizontal), desc)
			return
		}
	}
}

// fail-closed: an unknown name (or a name registered to the empty decoration) reports an error and then refuses to render
func c17FailClosed(c *Ctx, i int, r *gen.R) {
	name := fmt.Sprintf("unknown-%d-%d-%s", c.Shard, i, r.Str(gen.FAscii|gen.FWide|gen.FHTML, 3))
	how := "never registered"
	if i%3 == 2 {
		// unknown names that look like known ones: a registered name extended by a section, prefixed, in another
		// case, with a space; sub-package names; the empty name.  None of them has been registered (checked in
		// the listing), so each is as unknown as any other.
		known := c17Builtins[r.Intn(len(c17Builtins))]
		cand := gen.Pick(r, []string{known + ".compact", known + ".", "." + known, strings.ToUpper(known), known + " ", " " + known, "texttable." + known, known + "." + known, known + "/2", "csv", "json.x", "texttable", "", known[:len(known)-1]})
		registered := false
		for _, n := range decoration.RegisteredDecorationNames() {
			if n == cand {
				registered = true
			}
		}
		if !registered {
			name, how = cand, "never registered (looks like the registered name "+known+")"
		}
	}
	if i%3 == 1 {
		decoration.RegisterDecorationName(name, decoration.Decoration{})
		how = "registered to the empty decoration"
	}
	desc := map[string]interface{}{"name": gen.Q(name), "how": how}
	c.Case = desc
	c.Rec.Eval(gen.Hash64("failclosed", name, how), true)
	tt := texttable.New()
	made := "texttable.New()"
	switch (i / 3) % 4 {
	case 1:
		tt, made = texttable.Wrap(tabular.New()), "texttable.Wrap(tabular.New())"
	case 2:
		if x, ok := auto.New("texttable").(*texttable.TextTable); ok {
			tt, made = x, "auto.New(\"texttable\")"
		}
	case 3:
		if x, ok := auto.Wrap(tabular.New(), "ascii-simple").(*texttable.TextTable); ok {
			tt, made = x, "auto.Wrap(tabular.New(), \"ascii-simple\")"
		}
	}
	desc["table_made_by"] = made
	tt.AddHeaders("h")
	tt.AddRowItems("x")
	good, gerr := tt.Render()
	if gerr != nil || good == "" {
		c.Rec.Violate("default-decoration-does-not-render", fmt.Sprintf("a fresh text table does not render: %q, %v", good, gerr), desc)
		return
	}
	c.Rec.Count("fail_closed_probes", 1)
	if (i/12)%2 == 1 {
		// by value: the program looks the unknown name up itself and hands over what it got
		desc["first_set_by"] = "SetDecoration(decoration.Named(name))"
		tt.SetDecoration(decoration.Named(name))
	} else {
		ret, err := tt.SetDecorationNamed(name)
		if err == nil {
			c.Rec.Violate("unknown-name-accepted", fmt.Sprintf("SetDecorationNamed(%q) (%s) returned no error", name, how), desc)
			return
		}
		if ret != tt {
			c.Rec.Violate("unknown-name-return-value", "SetDecorationNamed did not return the table for chaining", desc)
			return
		}
	}
	for k := 0; k < 2; k++ {
		out, rerr := tt.Render()
		if rerr == nil || out != "" {
			c.Rec.Violate("renders-after-unknown-name", fmt.Sprintf("after the table was set to the unknown name %q, Render #%d returned %q with error %v instead of refusing", name, k+1, out, rerr), desc)
			return
		}
		var sw scriptWriter
		if rerr := tt.RenderTo(&sw); rerr == nil || len(sw.accepted) != 0 {
			c.Rec.Violate("renders-after-unknown-name", fmt.Sprintf("after the table was set to the unknown name %q, RenderTo wrote %q with error %v", name, sw.accepted, rerr), desc)
			return
		}
		if bad := refusedEverywhere(tt.RenderTo); bad != "" {
			c.Rec.Violate("renders-after-unknown-name:depending-on-the-destination", fmt.Sprintf("after the table was set to the unknown name %q: %s", name, bad), desc)
			return
		}
		c.Rec.Count("refusals_probed_with_every_kind_of_destination", 1)
	}
	// the same table goes on: known and unknown names (and explicit decorations) in any order; after
	// every step the table renders iff the last thing set was a known decoration
	var steps []string
	for k := r.Range(3, 8); k > 0; k-- {
		wantOK := true
		switch r.Intn(6) {
		case 4:
			// the program looks the name up itself and hands the result over by value: the same unknown name, the same refusal
			unk := fmt.Sprintf("%s-by-value-%d", name, k)
			steps = append(steps, fmt.Sprintf("SetDecoration(decoration.Named(%q)) [never registered]", unk))
			tt.SetDecoration(decoration.Named(unk))
			wantOK = false
		case 5:
			known := c17Builtins[r.Intn(len(c17Builtins))]
			steps = append(steps, fmt.Sprintf("SetDecoration(decoration.Named(%q)) [known]", known))
			tt.SetDecoration(decoration.Named(known))
		case 0, 1:
			known := c17Builtins[r.Intn(len(c17Builtins))]
			steps = append(steps, fmt.Sprintf("SetDecorationNamed(%q) [known]", known))
			if _, err := tt.SetDecorationNamed(known); err != nil {
				desc["steps"] = steps
				c.Rec.Violate("known-name-rejected", fmt.Sprintf("SetDecorationNamed(%q) failed: %v", known, err), desc)
				return
			}
		case 2:
			unk := fmt.Sprintf("%s-again-%d", name, k)
			steps = append(steps, fmt.Sprintf("SetDecorationNamed(%q) [never registered]", unk))
			if _, err := tt.SetDecorationNamed(unk); err == nil {
				desc["steps"] = steps
				c.Rec.Violate("unknown-name-accepted", fmt.Sprintf("SetDecorationNamed(%q) returned no error", unk), desc)
				return
			}
			wantOK = false
		case 3:
			steps = append(steps, "SetDecoration(decoration.ASCIIBoxSimple())")
			tt.SetDecoration(decoration.ASCIIBoxSimple())
		}
		desc["steps"] = steps
		c.Rec.Count("fail_closed_probes", 1)
		out, rerr := tt.Render()
		if wantOK && (rerr != nil || out == "") {
			c.Rec.Violate("does-not-recover", fmt.Sprintf("after %s Render returned %q, %v", steps[len(steps)-1], out, rerr), desc)
			return
		}
		if !wantOK && (rerr == nil || out != "") {
			c.Rec.Violate("renders-after-unknown-name:after-an-earlier-known-name", fmt.Sprintf("after %v the last name set is unknown, yet Render returned %q with error %v instead of refusing", steps, out, rerr), desc)
			return
		}
	}
}

func raceShards(th bool) int {
	if th {
		return 8
	}
	return 4
}

// raceProcs picks GOMAXPROCS for a shard of a race-detector check.
func raceProcs(shard int) int {
	return []int{0, 2, 4, 1}[shard%4]
}

func withProcs(c *Ctx, f func()) {
	if p := raceProcs(c.Shard); p > 0 {
		old := runtime.GOMAXPROCS(p)
		defer runtime.GOMAXPROCS(old)
	}
	f()
}

func init() {
	register(&Prop{
		ID:     "C17",
		Level:  "exploration",
		Race:   true,
		Shards: raceShards,
		Rule: "built with -race; shards run at GOMAXPROCS = all cores, 2, 4, 1. phase 0: concurrent histories of 2-8 clients x 2-8 operations (Register with a unique value per call / Named / RegisteredDecorationNames / render a text table by name, where the rule glyphs of the output name the registration that was observed) on 1-4 names of a fresh namespace, released by one barrier, followed (after all clients returned) by one lookup per name and one listing; every operation is recorded at the client boundary with call/return stamps from one atomic counter and the history is checked with porcupine against a sequential name->value map (listing = sorted key set); every listing is also checked for sortedness, duplicates and the six built-ins. " +
			"phase 1: sequential histories of 3-30 operations compared directly with a Go map. phase 2: fail-closed probes (never-registered names and names registered to the empty decoration): SetDecorationNamed must return an error, Render/RenderTo must refuse with no output; then 3-8 further steps on the same table (known names, further unknown names, explicit decorations) after each of which the table renders iff the last thing set was a known decoration. " +
			"distinct_nontrivial counts distinct interleaving signatures (order of client ids by call stamp, together with the scripts); the race detector's log is parsed by the parent and every report with a tabular frame is a violation.",
		Assumptions: []string{
			"the race detector and the linearizability checker see only the interleavings that happened in this run",
			"a porcupine timeout (20 s) is inconclusive, never a violation",
			"the registry is process-global and cannot be reset: every history uses a fresh namespace and listings are restricted to it (plus the built-ins)",
		},
		Phases: []Phase{
			{Name: "concurrent histories checked with porcupine", N: Fixed(400, 30000), Run: func(c *Ctx, i int, r *gen.R) { withProcs(c, func() { c17Concurrent(c, i, r) }) }},
			{Name: "sequential histories vs a map", N: Fixed(200, 10000), Run: c17Sequential},
			{Name: "fail-closed probes", N: Fixed(120, 3000), Run: c17FailClosed},
			{Name: "first registry operations of a fresh process (8 scripts x 6 built-in names, one child process each)", Exhaustive: true, N: Fixed(48, 48), Run: c17Fresh},
		},
	})
}

// ---------------------------------------------------------------------------
// first registry operations of a fresh process: whatever the library initialises lazily must not
// disturb what the application did first.  Each case runs in its own child process (vcheck -aux c17fresh).

func init() { auxModes["c17fresh"] = c17FreshChild }

var c17FreshModes = []string{"overwrite-builtin-first", "register-new-first", "list-first", "named-unknown-first", "overwrite-then-list", "same-value-again-then-change", "unknown-names-set-while-registrations-go-on", "lookups-of-different-names-at-once"}

// c17FreshChild performs the scripted first operations and prints "OK" or "BAD: <what>".
func c17FreshChild(args []string) int {
	if len(args) < 2 {
		return 3
	}
	mode, name := args[0], args[1]
	mine := c17Value("c0-1")
	bad := func(f string, a ...interface{}) int { fmt.Printf("BAD: "+f+"\n", a...); return 0 }
	switch mode {
	case "overwrite-builtin-first":
		decoration.RegisterDecorationName(name, mine)
		if got := decoration.Named(name); got != mine {
			return bad("RegisterDecorationName(%q, X) was the first registry operation of the process; the next Named(%q) returns a decoration with Horizontal=%q instead of X", name, name, got.Horizontal)
		}
	case "overwrite-then-list":
		decoration.RegisterDecorationName(name, mine)
		if p := c17ListProblems(decoration.RegisteredDecorationNames()); p != "" {
			return bad("after overwriting %q as the first operation the listing is malformed: %s", name, p)
		}
		if got := decoration.Named(name); got != mine {
			return bad("after overwriting %q as the first operation and then listing, Named returns Horizontal=%q instead of the registered value", name, got.Horizontal)
		}
	case "register-new-first":
		decoration.RegisterDecorationName("fresh-"+name, mine)
		if got := decoration.Named("fresh-" + name); got != mine {
			return bad("a name registered as the first operation is not found afterwards")
		}
		if p := c17ListProblems(decoration.RegisteredDecorationNames()); p != "" {
			return bad("listing after a first registration: %s", p)
		}
	case "list-first":
		if p := c17ListProblems(decoration.RegisteredDecorationNames()); p != "" {
			return bad("listing as the first operation: %s", p)
		}
		if decoration.Named(name) == decoration.EmptyDecoration {
			return bad("built-in %q not found", name)
		}
	case "named-unknown-first":
		if decoration.Named("never-"+name) != decoration.EmptyDecoration {
			return bad("unknown name resolves as the first operation")
		}
		if decoration.Named(name) == decoration.EmptyDecoration {
			return bad("built-in %q not found after an unknown lookup", name)
		}
	case "same-value-again-then-change":
		// registrations that change nothing, followed by ones that do: every call returns, and the registry says
		// what was registered last.  (This process has one goroutine and no timers: a registry call that never
		// returns ends it with the runtime's "all goroutines are asleep", which the parent reports.)
		other := c17Value("c0-2")
		n1, n2 := "again-"+name, "again2-"+name
		decoration.RegisterDecorationName(n1, mine)
		decoration.RegisterDecorationName(n1, mine)
		decoration.RegisterDecorationName(name, decoration.Named(name)) // a built-in re-registered with its own value
		decoration.RegisterDecorationName(n2, other)
		if decoration.Named(n1) != mine || decoration.Named(n2) != other {
			return bad("after Register(%q,X) twice and Register(%q,Y), lookups do not return X and Y", n1, n2)
		}
		decoration.RegisterDecorationName(n1, other)
		if decoration.Named(n1) != other {
			return bad("Register(%q,Y) after two registrations of X: Named returns Horizontal=%q", n1, decoration.Named(n1).Horizontal)
		}
		if p := c17ListProblems(decoration.RegisteredDecorationNames()); p != "" {
			return bad("listing after re-registrations: %s", p)
		}
		decoration.RegisterDecorationName(n1, other)
		decoration.RegisterDecorationName("again3-"+name, mine)
		if decoration.Named("again3-"+name) != mine {
			return bad("a name registered after several no-op registrations is not found")
		}
	case "unknown-names-set-while-registrations-go-on":
		// two goroutines keep setting tables of their own to unknown names (the error path of the by-name API) while
		// two others keep registering and overwriting names: every call returns.  This process is built without the
		// race detector, so if all of them end up waiting for each other the Go runtime ends it ("all goroutines are
		// asleep"), which the parent reports; a wrong answer is reported as BAD.
		var wg sync.WaitGroup
		var badMu sync.Mutex
		badMsg := ""
		setBad := func(m string) { badMu.Lock(); badMsg = m; badMu.Unlock() }
		for g := 0; g < 2; g++ {
			wg.Add(2)
			go func(g int) {
				defer wg.Done()
				tt := texttable.New()
				tt.AddHeaders("h")
				tt.AddRowItems("x")
				for k := 0; k < 20000; k++ {
					if _, err := tt.SetDecorationNamed(fmt.Sprintf("never-registered-%d-%d", g, k)); err == nil {
						setBad("SetDecorationNamed of a never registered name returned no error while registrations were going on")
						return
					}
					if out, err := tt.Render(); err == nil || out != "" {
						setBad("a table set to a never registered name rendered while registrations were going on")
						return
					}
				}
			}(g)
			go func(g int) {
				defer wg.Done()
				for k := 0; k < 20000; k++ {
					decoration.RegisterDecorationName(fmt.Sprintf("busy-%s-%d-%d", name, g, k%50), c17Value(fmt.Sprintf("c%d-%d", g, k)))
					_ = decoration.RegisteredDecorationNames()
				}
			}(g)
		}
		wg.Wait()
		if badMsg != "" {
			return bad("%s", badMsg)
		}
	case "lookups-of-different-names-at-once":
		// six goroutines look up different names at once - two registered ones with quite different decorations, a
		// built-in, and names never registered - in a binary built WITHOUT the race detector (code may be compiled
		// differently there): every lookup returns the decoration registered under THAT name, whole, or the empty
		// one; a table set to a never registered name reports the error and refuses to render
		da, db := c17Value("aaaaaaaa"), decoration.Decoration{Horizontal: "k", Vertical: "h", CrossPiece: "k"}
		db.Populate()
		na, nb := "concurrent-a-"+name, "concurrent-b-"+name
		decoration.RegisterDecorationName(na, da)
		decoration.RegisterDecorationName(nb, db)
		builtin := decoration.Named(name)
		var wg sync.WaitGroup
		var badMu sync.Mutex
		badMsg := ""
		setBad := func(m string) { badMu.Lock(); badMsg = m; badMu.Unlock() }
		for g := 0; g < 6; g++ {
			wg.Add(1)
			go func(g int) {
				defer wg.Done()
				tt := texttable.New()
				tt.AddRowItems("x")
				for k := 0; k < 60000; k++ {
					switch (g + k) % 5 {
					case 0:
						if d := decoration.Named(na); d != da {
							setBad(fmt.Sprintf("Named(%q) returned a decoration that was never registered under it (Horizontal %q CrossPiece %q) while other names were being looked up", na, d.Horizontal, d.CrossPiece))
							return
						}
					case 1:
						if d := decoration.Named(nb); d != db {
							setBad(fmt.Sprintf("Named(%q) returned a decoration that was never registered under it (Horizontal %q CrossPiece %q) while other names were being looked up", nb, d.Horizontal, d.CrossPiece))
							return
						}
					case 2:
						if d := decoration.Named(name); d != builtin {
							setBad(fmt.Sprintf("Named(%q) changed while other names were being looked up", name))
							return
						}
					case 3:
						if d := decoration.Named(fmt.Sprintf("never-%d-%d", g, k%7)); d != decoration.EmptyDecoration {
							setBad(fmt.Sprintf("Named of a never registered name returned a decoration (Horizontal %q) while other names were being looked up", d.Horizontal))
							return
						}
					default:
						if _, err := tt.SetDecorationNamed(fmt.Sprintf("never-%d-%d", g, k%7)); err == nil {
							out, _ := tt.Render()
							setBad(fmt.Sprintf("SetDecorationNamed of a never registered name returned no error while other names were being looked up; the table renders %q", out))
							return
						}
					}
				}
			}(g)
		}
		wg.Wait()
		if badMsg != "" {
			return bad("%s", badMsg)
		}
	default:
		return 3
	}
	fmt.Println("OK")
	return 0
}

func c17Fresh(c *Ctx, i int, r *gen.R) {
	mode := c17FreshModes[i%len(c17FreshModes)]
	name := c17Builtins[(i/len(c17FreshModes))%len(c17Builtins)]
	desc := map[string]interface{}{"first_operations_of_a_fresh_process": mode, "built_in_name": name}
	c.Case = desc
	exe := c.Exe
	if p := os.Getenv("VERIF_PLAIN_EXE"); p != "" {
		exe = p // built without -race, so that the runtime's deadlock detector is in force (see run.sh)
	}
	var out []byte
	var err error
	waitingForChild(func() { out, err = exec.Command(exe, "-aux", "c17fresh", mode, name).CombinedOutput() })
	c.Rec.Eval(gen.Hash64("fresh", mode, name), true)
	c.Rec.Count("fresh_process_probes", 1)
	s := strings.TrimSpace(string(out))
	switch {
	case err != nil:
		c.Rec.Violate("fresh-process:child-died:"+mode, fmt.Sprintf("the child process performing %q on %q died: %v; output %q", mode, name, err, s), desc)
	case strings.HasPrefix(s, "BAD:"):
		c.Rec.Violate("fresh-process:"+mode, s, desc)
	case !strings.HasSuffix(s, "OK"):
		c.Rec.Inconclusive("fresh-process child printed neither OK nor BAD: " + s)
	}
}
