package props

import (
	"errors"
	"fmt"
	"io"

	"go.pennock.tech/tabular"
	"go.pennock.tech/tabular/csv"
	"go.pennock.tech/tabular/texttable"

	"verifharness/internal/gen"
)

// C11 - errors accumulate in the table: none lost, none duplicated, none nil.
//
// Monitor: conservation / exactly-once over unique ids.  Every error the
// harness raises is a distinct errors.New value; the expected multiset per
// destination is maintained alongside the history and compared after EVERY step.

type c11Err struct {
	err  error
	id   string
	what string
	src  int // source: registration id or row id or 0 for the table itself
	seq  int // global raise order
}

type c11Row struct {
	h        *tabular.Row
	src      int
	exp      []*c11Err // expected in the row's own list while unattached
	foreign  int
	sep      bool
	attached bool
}

type c11State struct {
	c         *Ctx
	t         *tabular.ATable
	byErr     map[error]*c11Err
	shared    map[error]bool // error objects raised more than once
	raised    []*c11Err
	tableExp  []*c11Err
	t2        *tabular.ATable // a second table fed with t.Errors()
	t2Exp     []*c11Err
	t2Foreign int
	foreign   int // library-made errors expected in the table's list
	held      []*c11Row
	rows      []*c11Row // attached (incl. separators)
	dest      *c11Row   // nil = table; where errors raised by callbacks right now must end up
	nErr      int
	salt      int // rotates the dynamic types of the errors raised
	nSrc      int
	log       []string
	cbEvents  int
}

// c11RowAdd records one error on a row through one of the ways a Row offers: AddError, AddErrorList (alone, or
// among nil entries), or the same two through the exported embedded container when the row has one.
func c11RowAdd(row *tabular.Row, e error, salt int) {
	switch salt % 5 {
	case 1:
		row.AddErrorList([]error{e})
	case 2:
		row.AddErrorList([]error{nil, e, nil})
	case 3:
		if row.ErrorContainer != nil {
			row.ErrorContainer.AddError(e)
			return
		}
		row.AddError(e)
	default:
		row.AddError(e)
	}
}

func (s *c11State) newSrc() int { s.nSrc++; return s.nSrc }

func (s *c11State) raise(src int, what string) *c11Err {
	s.nErr++
	id := fmt.Sprintf("%c%d-src%d-%s", "zqaexmb"[(s.nErr*5+s.salt)%7], s.nErr, src, what) // messages are not in any order an accidental sort would preserve
	e := &c11Err{err: c11MakeErr(id, s.nErr*5+s.salt), id: id, what: what, src: src, seq: s.nErr}
	if len(s.raised) > 0 && (s.nErr*7+s.salt)%5 == 0 {
		// the very same error object again (a sentinel such as io.EOF, a reused *MyErr): another occurrence of an error
		// is another error to report, whoever raised the first one
		prev := s.raised[(s.nErr*3+s.salt)%len(s.raised)]
		e.err, e.id = prev.err, prev.id+" (the same error object again, raised as #"+fmt.Sprint(s.nErr)+" by source "+fmt.Sprint(src)+")"
		s.shared[e.err] = true
		s.raised = append(s.raised, e)
		s.c.Rec.Count("errors_raised_that_are_an_earlier_error_object_again", 1)
		return e
	}
	s.raised = append(s.raised, e)
	s.byErr[e.err] = e
	s.c.Rec.Count("detail:error_value_kind:"+c11ErrKindNames[(s.nErr*5+s.salt)%len(c11ErrKindNames)], 1)
	return e
}

// ---- the error values raised: one error is one error whatever else its dynamic type can do

// c11RichErr also lists "details" through an Errors method, like an application's validation error would.
type c11RichErr struct {
	id      string
	details []error
}

func (e *c11RichErr) Error() string   { return e.id }
func (e *c11RichErr) Errors() []error { return e.details }

// c11ContainerErr is an error built around the library's own public container: it has Errors, AddError and AddErrorList.
type c11ContainerErr struct {
	*tabular.ErrorContainer
	id string
}

func (e *c11ContainerErr) Error() string { return e.id }

type c11UnwrapManyErr struct {
	id    string
	inner []error
}

func (e *c11UnwrapManyErr) Error() string   { return e.id }
func (e *c11UnwrapManyErr) Unwrap() []error { return e.inner }

type c11UnwrapOneErr struct {
	id    string
	inner error
}

func (e *c11UnwrapOneErr) Error() string        { return e.id }
func (e *c11UnwrapOneErr) Unwrap() error        { return e.inner }
func (e *c11UnwrapOneErr) Is(target error) bool { return true }
func (e *c11UnwrapOneErr) String() string       { return "String() of " + e.id }
func (e *c11UnwrapOneErr) GoString() string     { return "GoString() of " + e.id }

// c11ValErr is a comparable value type (not a pointer).
type c11ValErr struct{ id string }

func (e c11ValErr) Error() string { return e.id }

var c11ErrKindNames = []string{"errors.New", "pointer type with an Errors() []error method listing 2 details", "pointer type with an Errors() method listing nothing", "type embedding *tabular.ErrorContainer (holding 1 detail)", "type with Unwrap() []error", "type with Unwrap() error, Is, String and GoString", "fmt.Errorf with %w", "errors.Join of two", "comparable struct value"}

func c11MakeErr(id string, kind int) error {
	switch kind % len(c11ErrKindNames) {
	case 1:
		return &c11RichErr{id: id, details: []error{errors.New("detail 1 of " + id), errors.New("detail 2 of " + id)}}
	case 2:
		return &c11RichErr{id: id}
	case 3:
		ec := tabular.NewErrorContainer()
		ec.AddError(errors.New("detail held by " + id))
		return &c11ContainerErr{ErrorContainer: ec, id: id}
	case 4:
		return &c11UnwrapManyErr{id: id, inner: []error{errors.New("inner 1 of " + id), errors.New("inner 2 of " + id)}}
	case 5:
		return &c11UnwrapOneErr{id: id, inner: errors.New("inner of " + id)}
	case 6:
		return fmt.Errorf("%s: %w", id, errors.New("wrapped by "+id))
	case 7:
		return errors.Join(errors.New(id+" first half"), errors.New(id+" second half"))
	case 8:
		return c11ValErr{id}
	}
	return errors.New(id)
}

func (s *c11State) expect(e *c11Err, row *c11Row) {
	if row != nil && !row.attached {
		row.exp = append(row.exp, e)
	} else {
		s.tableExp = append(s.tableExp, e)
	}
}

// failing callback: returns a fresh unique error on some invocations
func (s *c11State) callback(src int, period int) tabular.PropertyCallback {
	n := 0
	// a third of the callbacks record their finding through the error API of the live row or table they were
	// handed (a validator with several findings per row has to: UpdateProperties returns one error) instead of returning it
	ownAPI := (src+s.salt)%3 == 0
	return cbFunc(func(o tabular.PropertyOwner) error {
		n++
		s.cbEvents++
		if n%period != 0 {
			return nil
		}
		what := "callback"
		if s.dest != nil && !s.dest.attached {
			what = "callback-on-unattached-row"
		}
		e := s.raise(src, what)
		s.expect(e, s.dest)
		if ownAPI || (n+src)%4 == 0 { // some sources always record directly, the others do so on every fourth finding (one source, both channels)
			switch x := o.(type) {
			case *tabular.Row:
				s.c.Rec.Count("errors_recorded_from_inside_a_callback_through_the_live_row's_AddError", 1)
				x.AddError(e.err)
				return nil
			case *tabular.ATable:
				s.c.Rec.Count("errors_recorded_from_inside_a_callback_through_the_live_table's_AddError", 1)
				x.AddError(e.err)
				return nil
			case *tabular.Cell:
				// a cell-targeted callback of an application that holds on to its table records there
				if s.dest == nil {
					s.c.Rec.Count("errors_recorded_from_inside_a_cell_callback_on_the_table_directly", 1)
					s.t.AddError(e.err)
					return nil
				}
			}
		}
		return e.err
	})
}

func (s *c11State) verify(list []error, exp []*c11Err, foreign int, who string) (string, string) {
	if len(exp)+foreign == 0 {
		if list != nil {
			return "Errors-not-nil-when-empty", fmt.Sprintf("%s.Errors() is a non-nil list of length %d although no error was raised", who, len(list))
		}
		return "", ""
	}
	if len(list) == 0 {
		return "errors-lost:" + firstWhat(exp), fmt.Sprintf("%s.Errors() is empty (nil=%v) but %d harness errors and %d library errors were raised; first missing: %s", who, list == nil, len(exp), foreign, firstID(exp))
	}
	seen := map[error]int{}
	nForeign := 0
	lastSeq := map[int]int{}
	for i, e := range list {
		if e == nil {
			return "nil-entry", fmt.Sprintf("%s.Errors()[%d] is nil (list length %d)", who, i, len(list))
		}
		ce := s.byErr[e]
		if ce == nil {
			nForeign++
			continue
		}
		seen[e]++
		if s.shared[e] {
			continue // an object raised several times has no single place in its sources' order
		}
		if ce.seq < lastSeq[ce.src] {
			return "per-source-order", fmt.Sprintf("%s.Errors(): error %s of source %d appears after a later error of the same source", who, ce.id, ce.src)
		}
		lastSeq[ce.src] = ce.seq
	}
	want := map[error]int{}
	for _, e := range exp {
		want[e.err]++
	}
	for _, e := range exp {
		switch {
		case seen[e.err] < want[e.err]:
			return "errors-lost:" + e.what, fmt.Sprintf("%s.Errors() contains %s %d times, it was raised for this destination %d times (list has %d entries, %d expected)", who, e.id, seen[e.err], want[e.err], len(list), len(exp)+foreign)
		case seen[e.err] > want[e.err]:
			return "errors-duplicated:" + e.what, fmt.Sprintf("%s.Errors() contains %s %d times, it was raised for this destination %d times", who, e.id, seen[e.err], want[e.err])
		}
	}
	for e, n := range seen {
		if want[e] == 0 {
			return "error-misrouted", fmt.Sprintf("%s.Errors() contains %s (%d times), which was raised for a different destination", who, s.byErr[e].id, n)
		}
	}
	if nForeign != foreign {
		return "library-error-count", fmt.Sprintf("%s.Errors() contains %d errors made by the library itself, expected %d (one per cell added to a separator row, and the zero-valued error values the history added)", who, nForeign, foreign)
	}
	return "", ""
}

// verifyMulti is verify for a list into which the same error may legitimately have been
// copied several times (a summary table): the multiset must match and nil entries are forbidden.
func (s *c11State) verifyMulti(list []error, exp []*c11Err, foreign int, who string) (string, string) {
	if len(exp)+foreign == 0 {
		if list != nil {
			return "Errors-not-nil-when-empty", fmt.Sprintf("%s.Errors() is a non-nil list of length %d although nothing was added", who, len(list))
		}
		return "", ""
	}
	want := map[error]int{}
	for _, e := range exp {
		want[e.err]++
	}
	got := map[error]int{}
	nForeign := 0
	for i, e := range list {
		if e == nil {
			return "nil-entry", fmt.Sprintf("%s.Errors()[%d] is nil", who, i)
		}
		if ce := s.byErr[e]; ce != nil {
			got[e]++
		} else {
			nForeign++
		}
	}
	for e, n := range want {
		if got[e] != n {
			return "errors-lost-or-duplicated", fmt.Sprintf("%s.Errors() holds %s %d times, expected %d", who, s.byErr[e].id, got[e], n)
		}
	}
	for e, n := range got {
		if want[e] == 0 {
			return "error-misrouted", fmt.Sprintf("%s.Errors() holds %s (%d times), which was never added to it", who, s.byErr[e].id, n)
		}
	}
	if nForeign != foreign {
		return "library-error-count", fmt.Sprintf("%s.Errors() holds %d library-made errors, expected %d", who, nForeign, foreign)
	}
	return "", ""
}

// c11SameErr compares two errors for identity where their type is comparable (nil-slice multi-errors are matched by type and length).
func c11SameErr(a, b error) bool {
	if ma, ok := a.(c11MultiErr); ok {
		mb, ok2 := b.(c11MultiErr)
		return ok2 && len(ma) == len(mb)
	}
	if _, ok := b.(c11MultiErr); ok {
		return false
	}
	return a == b
}

func firstWhat(exp []*c11Err) string {
	if len(exp) == 0 {
		return "library-error"
	}
	return exp[0].what
}

func firstID(exp []*c11Err) string {
	if len(exp) == 0 {
		return "(library error)"
	}
	return exp[0].id
}

func (s *c11State) check() (string, string) {
	s.c.Rec.Count("state_comparisons", 1)
	if k, m := s.verify(s.t.Errors(), s.tableExp, s.foreign, "table"); k != "" {
		return k, m
	}
	if s.t2 != nil {
		if k, m := s.verifyMulti(s.t2.Errors(), s.t2Exp, s.t2Foreign, "summary table (fed by summary.AddErrorList(t.Errors()))"); k != "" {
			return "summary-table:" + k, m
		}
	}
	for i, r := range s.held {
		if k, m := s.verify(r.h.Errors(), r.exp, r.foreign, fmt.Sprintf("unattached row #%d", i)); k != "" {
			return "unattached-row:" + k, m
		}
	}
	for i, r := range s.rows {
		for j, e := range r.h.Errors() {
			if e == nil {
				return "nil-entry", fmt.Sprintf("attached row %d Errors()[%d] is nil", i+1, j)
			}
		}
	}
	return "", ""
}

func (s *c11State) attachedCellRows() []*c11Row {
	var out []*c11Row
	for _, r := range s.rows {
		if !r.sep {
			out = append(out, r)
		}
	}
	return out
}

func (s *c11State) step(r *gen.R) {
	t := s.t
	say := func(f string, a ...interface{}) { s.log = append(s.log, fmt.Sprintf(f, a...)) }
	period := func() int { return r.Range(1, 3) }
	s.dest = nil
	switch r.Intn(30) {
	case 29:
		// a row made by the table itself (AppendNewRow) and filled afterwards: it is in the table from the start
		h := t.AppendNewRow()
		row := &c11Row{h: h, src: s.newSrc(), attached: true}
		s.rows = append(s.rows, row)
		s.dest = row
		k := r.Range(1, 3)
		say("t.AppendNewRow() + %d x Add(cell)", k)
		for ; k > 0; k-- {
			h.Add(tabular.NewCell("appended"))
		}
		s.dest = nil
		s.c.Rec.Count("rows_made_by_AppendNewRow_and_filled_afterwards", 1)
	case 28:
		// many at once: a row that is still being put together (or the table) gets 11-30 errors in one go - more than
		// any initial capacity, and more than what the table holds so far
		n := r.Range(11, 30)
		var row *c11Row
		if len(s.held) > 0 && r.Chance(2, 3) {
			row = s.held[r.Intn(len(s.held))]
		}
		src, what := 0, "table.AddErrorList(many)"
		if row != nil {
			src, what = row.src, "row.AddErrorList(many)-before-attach"
		}
		list := make([]error, 0, n)
		for k := 0; k < n; k++ {
			e := s.raise(src, what)
			s.expect(e, row)
			list = append(list, e.err)
		}
		s.c.Rec.Count("bulk_recordings_of_11_to_30_errors", 1)
		switch {
		case row == nil:
			say("t.AddErrorList(%d errors)", n)
			t.AddErrorList(list)
		case r.Bool():
			say("held row: AddErrorList(%d errors)", n)
			row.h.AddErrorList(list)
		default:
			say("held row: %d x AddError", n)
			for _, e := range list {
				row.h.AddError(e)
			}
		}
	case 27:
		// recording calls that record nothing (a nil error, a nil or empty list, a list of nils - the usual
		// one-slot-per-validator slice when every validator passed) on a row, attached or not: they change nothing,
		// now or for what is recorded on that row later
		var row *c11Row
		if len(s.held) > 0 && r.Bool() {
			row = s.held[r.Intn(len(s.held))]
		} else if rows := s.attachedCellRows(); len(rows) > 0 {
			row = rows[r.Intn(len(rows))]
		}
		if row == nil {
			return
		}
		say("a row (attached=%v) gets AddError(nil), AddErrorList(nil), AddErrorList([]) and AddErrorList([nil nil nil])", row.attached)
		row.h.AddError(nil)
		row.h.AddErrorList(nil)
		row.h.AddErrorList([]error{})
		row.h.AddErrorList(make([]error, 3))
		s.c.Rec.Count("recording_calls_that_record_nothing_on_rows", 4)
	case 26:
		// looking is not touching: the program prints the table (or hands it to another table as an item, whose
		// cell then asks it for its text form) for a log line or a debugger
		say("the table is formatted with %%v, %%+v and %%#v, and stored as an item in a cell of another table")
		_ = fmt.Sprintf("%v %+v", t, t)
		_ = fmt.Sprintf("%#v", t)
		outer := tabular.New()
		outer.AddRowItems("nested", t)
		s.c.Rec.Count("observations_of_the_table_through_fmt_and_as_an_item", 1)
	case 25:
		// errors whose value is the zero value of their type are errors all the same
		say("t.AddError(zero-valued struct error); t.AddErrorList([error code 0, nil, NoSuchCellError{}])")
		t.AddError(c11ZeroStructErr{})
		t.AddErrorList([]error{c11CodeErr(0), nil, tabular.NoSuchCellError{}})
		s.foreign += 3
	case 22, 23:
		// a second ("summary") table collects this table's errors so far; both go on afterwards
		if s.t2 == nil {
			s.t2 = tabular.New()
		}
		say("summary.AddErrorList(t.Errors())  [%d errors]", len(t.Errors()))
		s.t2.AddErrorList(t.Errors())
		s.t2Exp = append(s.t2Exp, s.tableExp...)
		s.t2Foreign += s.foreign
	case 24:
		if s.t2 == nil {
			s.t2 = tabular.New()
		}
		e := s.raise(-1, "summary.AddError")
		say("summary.AddError(%s)", e.id)
		s.t2.AddError(e.err)
		s.t2Exp = append(s.t2Exp, e)
	case 20, 21:
		if len(s.held) == 0 {
			return
		}
		row := s.held[r.Intn(len(s.held))]
		s.dest = row
		say("held.Add(cell)")
		row.h.Add(tabular.NewCell("x"))
	case 0:
		e := s.raise(0, "table.AddError")
		say("t.AddError(%s)", e.id)
		t.AddError(e.err)
		s.tableExp = append(s.tableExp, e)
	case 1:
		n := r.Intn(4)
		list := make([]error, 0, n)
		desc := ""
		for i := 0; i < n; i++ {
			if r.Chance(1, 3) {
				list = append(list, nil)
				desc += "nil "
			} else {
				e := s.raise(0, "table.AddErrorList")
				list = append(list, e.err)
				s.tableExp = append(s.tableExp, e)
				desc += e.id + " "
			}
		}
		if n == 0 && r.Bool() {
			list = nil
		}
		say("t.AddErrorList([%s]); the caller then overwrites and extends its list", desc)
		t.AddErrorList(list)
		t.AddError(nil)
		for i := range list {
			list[i] = c11Scribble
		}
		list = append(list, c11Scribble)
	case 2:
		var h *tabular.Row
		switch r.Intn(3) {
		case 0:
			h = tabular.NewRow()
			say("held := NewRow()")
		case 1:
			h = t.NewRowSizedFor()
			say("held := t.NewRowSizedFor()")
		default:
			h = tabular.NewRowWithCapacity(r.Intn(3))
			say("held := NewRowWithCapacity(n)")
		}
		s.held = append(s.held, &c11Row{h: h, src: s.newSrc()})
	case 3, 4:
		if len(s.held) == 0 {
			return
		}
		row := s.held[r.Intn(len(s.held))]
		if r.Bool() {
			e := s.raise(row.src, "row.AddError-before-attach")
			say("held.AddError(%s)", e.id)
			c11RowAdd(row.h, e.err, s.nErr)
			row.h.AddError(nil)
			row.exp = append(row.exp, e)
		} else {
			s.dest = row
			say("held.Add(cell)")
			row.h.Add(tabular.NewCell("x"))
		}
	case 5, 6:
		if len(s.held) == 0 {
			return
		}
		i := r.Intn(len(s.held))
		row := s.held[i]
		s.held = append(s.held[:i], s.held[i+1:]...)
		say("t.AddRow(held) carrying %d errors", len(row.exp))
		// the row's own errors move to the table, in the row's order
		s.tableExp = append(s.tableExp, row.exp...)
		s.foreign += row.foreign
		row.exp, row.foreign = nil, 0
		row.attached = true
		s.rows = append(s.rows, row)
		s.dest = nil
		t.AddRow(row.h)
	case 7:
		rows := s.attachedCellRows()
		if len(rows) == 0 {
			return
		}
		row := rows[r.Intn(len(rows))]
		e := s.raise(row.src, "row.AddError-after-attach")
		say("attachedRow.AddError(%s)", e.id)
		c11RowAdd(row.h, e.err, s.nErr)
		s.tableExp = append(s.tableExp, e)
	case 8:
		rows := s.attachedCellRows()
		if len(rows) == 0 {
			return
		}
		row := rows[r.Intn(len(rows))]
		say("attachedRow.Add(cell)")
		row.h.Add(tabular.NewCell("y"))
	case 9:
		k := r.Intn(4)
		items := make([]interface{}, k)
		for i := range items {
			items[i] = "v"
		}
		say("t.AddRowItems(%d items)", k)
		t.AddRowItems(items...)
		all := t.AllRows()
		s.rows = append(s.rows, &c11Row{h: all[len(all)-1], src: s.newSrc(), attached: true})
	case 10:
		k := r.Intn(4)
		items := make([]interface{}, k)
		for i := range items {
			items[i] = "h"
		}
		say("t.AddHeaders(%d items)", k)
		t.AddHeaders(items...)
	case 11:
		say("t.AddSeparator()")
		t.AddSeparator()
		all := t.AllRows()
		s.rows = append(s.rows, &c11Row{h: all[len(all)-1], src: s.newSrc(), attached: true, sep: true})
	case 12:
		// misuse: add a cell to a separator row; or record an error on it
		var seps []*c11Row
		for _, x := range s.rows {
			if x.sep {
				seps = append(seps, x)
			}
		}
		if len(seps) == 0 {
			return
		}
		row := seps[r.Intn(len(seps))]
		if r.Chance(2, 3) {
			say("separatorRow.Add(cell)  (misuse: exactly one new error must appear in the table)")
			row.h.Add(tabular.NewCell("z"))
			s.foreign++
		} else {
			e := s.raise(row.src, "separatorRow.AddError")
			say("separatorRow.AddError(%s)", e.id)
			c11RowAdd(row.h, e.err, s.nErr)
			s.tableExp = append(s.tableExp, e)
		}
	case 13, 14, 15:
		// register a failing callback somewhere legal
		src := s.newSrc()
		cb := s.callback(src, period())
		when := r.Intn(4)
		var err error
		switch r.Intn(6) {
		case 0:
			tg := r.Intn(3)
			say("register failing callback #%d on table, %s %s", src, cbTimeNames[when], cbTargetNames[tg])
			err = t.RegisterPropertyCallback(t, cbTimes[when], cbTargets[tg], cb)
		case 1:
			n := r.Range(0, t.NColumns())
			tg := r.Intn(2)
			say("register failing callback #%d on column %d, %s %s", src, n, cbTimeNames[when], cbTargetNames[tg])
			err = t.RegisterPropertyCallback(t.Column(n), cbTimes[when], cbTargets[tg], cb)
		case 2:
			if len(s.held) == 0 {
				return
			}
			row := s.held[r.Intn(len(s.held))]
			tg := r.Intn(3)
			if r.Bool() {
				when, tg = 0, 1 // the add-time cell callback is the one that fires while the row is still unattached
			}
			say("register failing callback #%d on an unattached row, %s %s", src, cbTimeNames[when], cbTargetNames[tg])
			err = t.RegisterPropertyCallback(row.h, cbTimes[when], cbTargets[tg], cb)
		case 3:
			rows := s.attachedCellRows()
			if len(rows) == 0 {
				return
			}
			row := rows[r.Intn(len(rows))]
			tg := r.Intn(3)
			if r.Bool() {
				when, tg = 0, 1
			}
			say("register failing callback #%d on an attached row, %s %s", src, cbTimeNames[when], cbTargetNames[tg])
			err = t.RegisterPropertyCallback(row.h, cbTimes[when], cbTargets[tg], cb)
		case 4:
			rows := s.attachedCellRows()
			if len(rows) == 0 {
				return
			}
			row := rows[r.Intn(len(rows))]
			if len(row.h.Cells()) == 0 {
				return
			}
			ci := r.Intn(len(row.h.Cells()))
			tg := r.Intn(2)
			say("register failing callback #%d on a cell of an attached row, %s %s", src, cbTimeNames[when], cbTargetNames[tg])
			err = t.RegisterPropertyCallback(&row.h.Cells()[ci], cbTimes[when], cbTargets[tg], cb)
		case 5:
			tg := 1
			say("register failing callback #%d on table, AT_ADD ON_CELL", src)
			err = t.RegisterPropertyCallback(t, cbTimes[0], cbTargets[tg], cb)
		}
		if err != nil {
			say("  (registration failed: %v)", err)
		}
	case 16, 17:
		say("t.InvokeRenderCallbacks()")
		t.InvokeRenderCallbacks()
	case 18:
		say("csv.Wrap(t).RenderTo(discard)")
		if p, _, _ := Guard(func() { csv.Wrap(t).RenderTo(io.Discard) }); p {
			s.c.Rec.Count("render_panics_ignored_here(C09)", 1)
		}
	case 19:
		say("texttable.Wrap(t).RenderTo(discard)")
		if p, _, _ := Guard(func() { texttable.Wrap(t).RenderTo(io.Discard) }); p {
			s.c.Rec.Count("render_panics_ignored_here(C09)", 1)
		}
	}
	s.dest = nil
}

func c11History(c *Ctx, i int, r *gen.R) {
	s := &c11State{c: c, t: tabular.New(), byErr: map[error]*c11Err{}, shared: map[error]bool{}, salt: r.Intn(9)}
	desc := map[string]interface{}{}
	c.Case = desc
	n := r.Range(5, 40)
	// reading an error list is an operation like any other (and might put things right): a third of the histories
	// are read after every step, a third at the end only, a third after one step in three
	schedule := i % 3
	desc["error_lists_are_read"] = []string{"after every step", "at the end of the history only", "after one step in three, and at the end"}[schedule]
	for k := 0; k < n; k++ {
		s.step(r)
		desc["history"] = s.log
		if !(schedule == 0 || k == n-1 || (schedule == 2 && r.Chance(1, 3))) {
			s.c.Rec.Count("steps_after_which_no_error_list_was_read", 1)
			continue
		}
		if key, msg := s.check(); key != "" {
			c.Rec.Violate(key, fmt.Sprintf("after step %d (%s): %s", len(s.log), s.log[len(s.log)-1], msg), desc)
			break
		}
	}
	c.Rec.Eval(gen.Hash64(fmt.Sprint(s.log)), s.nErr > 0)
	c.Rec.Count("steps", int64(len(s.log)))
	c.Rec.Count("errors_raised", int64(s.nErr))
	c.Rec.Count("failing_callback_invocations_observed", int64(s.cbEvents))
	if s.nErr > 3 && c.Rec.WantSample() {
		c.Rec.Sample(map[string]interface{}{"history": s.log, "errors_raised": s.nErr})
	}
}

// ---- bare containers, exhaustive

var c11ContOps = []string{"AddError(nil)", "AddError(e)", "AddErrorList(nil)", "AddErrorList([])", "AddErrorList([nil])", "AddErrorList([e]) then caller overwrites its list", "AddErrorList([e,nil,e]) then caller overwrites its list", "AddErrorList([nil,nil,e])", "AddErrorList([e,e]) with spare capacity, caller appends to its list afterwards", "B.AddErrorList(A.Errors())", "B.AddError(e)", "AddError(zero-valued error values)", "AddErrorList([zero-valued struct error, nil, error code 0])", "A.AddErrorList(append(A.Errors(), e, e)): the caller extends the list A handed out and hands it back", "A.AddErrorList(append(A.Errors(), nil, e)): the same with a nil entry"}

var c11Scribble = errors.New("the caller's own later use of its list")

// errors which are non-nil but equal to the zero value of their type
type c11ZeroStructErr struct{}

func (c11ZeroStructErr) Error() string { return "an error of an empty struct type" }

type c11CodeErr int

func (c c11CodeErr) Error() string { return fmt.Sprintf("error code %d", int(c)) }

type c11MultiErr []error

func (m c11MultiErr) Error() string { return fmt.Sprintf("%d errors", len(m)) }

func c11Containers(c *Ctx, i int, r *gen.R) {
	nb := len(c11ContOps)
	kind := i % 3
	seq := c02Decode(i/3, nb)
	var ec *tabular.ErrorContainer
	kindName := ""
	switch kind {
	case 0:
		ec, kindName = tabular.NewErrorContainer(), "NewErrorContainer()"
	case 1:
		ec, kindName = &tabular.ErrorContainer{}, "&ErrorContainer{} (zero value)"
	case 2:
		ec, kindName = nil, "(*ErrorContainer)(nil)"
	}
	var exp, expB []error
	second := tabular.NewErrorContainer()
	if len(seq) > 0 && seq[0]%2 == 1 {
		second = &tabular.ErrorContainer{}
	}
	names := make([]string, len(seq))
	n := 0
	mk := func() error {
		n++
		e := errors.New(fmt.Sprintf("e%d", n))
		if kind != 2 {
			exp = append(exp, e)
		}
		return e
	}
	desc := map[string]interface{}{"container": kindName}
	c.Case = desc
	c.Rec.Eval(gen.Hash64("cont", kindName, fmt.Sprint(seq)), len(seq) > 0)
	for k, op := range seq {
		names[k] = c11ContOps[op]
		desc["ops"] = names[:k+1]
		switch op {
		case 0:
			ec.AddError(nil)
		case 1:
			ec.AddError(mk())
		case 2:
			ec.AddErrorList(nil)
		case 3:
			ec.AddErrorList([]error{})
		case 4:
			ec.AddErrorList([]error{nil})
		case 5:
			l := []error{mk()}
			ec.AddErrorList(l)
			l[0] = c11Scribble
		case 6:
			a, b := mk(), mk()
			l := []error{a, nil, b}
			ec.AddErrorList(l)
			l[0], l[1], l[2] = c11Scribble, c11Scribble, c11Scribble
		case 7:
			ec.AddErrorList([]error{nil, nil, mk()})
		case 8:
			l := make([]error, 0, 8)
			l = append(l, mk(), mk())
			ec.AddErrorList(l)
			l = append(l, c11Scribble, c11Scribble)
			l[0] = c11Scribble
		case 9:
			second.AddErrorList(ec.Errors())
			expB = append(expB, exp...)
		case 10:
			n++
			e := errors.New(fmt.Sprintf("b%d", n))
			second.AddError(e)
			expB = append(expB, e)
		case 11:
			for _, e := range []error{c11ZeroStructErr{}, c11CodeErr(0), c11MultiErr(nil), tabular.NoSuchCellError{}} {
				ec.AddError(e)
				if kind != 2 {
					exp = append(exp, e)
				}
			}
		case 12:
			ec.AddErrorList([]error{c11ZeroStructErr{}, nil, c11CodeErr(0)})
			if kind != 2 {
				exp = append(exp, c11ZeroStructErr{}, c11CodeErr(0))
			}
		case 13, 14:
			// the list a container handed out is the caller's: it appends its new findings to it and reports the lot
			// (everything it had seen plus the new ones) - to the same container
			n += 2
			a, b := errors.New(fmt.Sprintf("e%d", n-1)), errors.New(fmt.Sprintf("e%d", n))
			found := ec.Errors()
			old := append([]error{}, exp...)
			if op == 13 {
				found = append(found, a, b)
			} else {
				found = append(found, nil, b)
			}
			ec.AddErrorList(found)
			c.Rec.Count("lists_handed_back_that_extend_the_list_the_container_handed_out", 1)
			if kind != 2 {
				exp = append(exp, old...)
				if op == 13 {
					exp = append(exp, a)
				}
				exp = append(exp, b)
			}
		}
		c.Rec.Count("container_comparisons", 2)
		for which, pair := range []struct {
			got, exp []error
		}{{ec.Errors(), exp}, {second.Errors(), expB}} {
			got, exp := pair.got, pair.exp
			bad := ""
			if len(exp) == 0 {
				if got != nil {
					bad = fmt.Sprintf("Errors() is non-nil (len %d) although nothing non-nil was added", len(got))
				}
			} else if len(got) != len(exp) {
				bad = fmt.Sprintf("Errors() has %d entries %v, expected the %d non-nil inputs in order", len(got), got, len(exp))
			} else {
				for j := range got {
					if !c11SameErr(got[j], exp[j]) {
						bad = fmt.Sprintf("Errors()[%d]=%v, expected %v", j, got[j], exp[j])
						break
					}
				}
			}
			if bad != "" {
				key := "container:" + []string{"constructed", "zero-value", "nil"}[kind]
				who := kindName
				if which == 1 {
					key += ":second-container-fed-from-first"
					who = "second container B (fed by B.AddErrorList(A.Errors()))"
				}
				c.Rec.Violate(key, fmt.Sprintf("A = %s; after %v: %s: %s", kindName, names[:k+1], who, bad), desc)
				return
			}
		}
	}
	if len(seq) == 4 && i%997 == 0 && c.Rec.WantSample() {
		c.Rec.Sample(map[string]interface{}{"container": kindName, "ops": names})
	}
}

func init() {
	nb := len(c11ContOps)
	register(&Prop{
		ID:    "C11",
		Level: "exploration",
		Rule: "phase 0 (exhaustive): every sequence of up to L (4 quick, 5 thorough) container operations over {AddError(nil|e), AddErrorList(nil|[]|[nil]|[e]|[e,nil,e]|[nil,nil,e]|[e,e] with spare capacity) with the caller overwriting / appending to its own list afterwards, B.AddErrorList(A.Errors()), B.AddError(e), A.AddErrorList(append(A.Errors(), e, e)), A.AddErrorList(append(A.Errors(), nil, e))} on a constructed, a zero-value and a nil container A and a second container B, Errors() of both compared with the non-nil inputs in order after each operation; " +
			"phase 1: random table histories of 5-40 steps mixing direct errors on the table / unattached rows / attached rows / separator rows, AddErrorList with nil entries, cells added to separator rows, a second (summary) table fed with t.Errors() while both tables go on collecting, the caller overwriting its list after AddErrorList, failing callbacks (fresh unique error per failing invocation) registered on table, columns, unattached rows, attached rows and cells at all times and targets, row attachment, and render passes (InvokeRenderCallbacks, csv, text). " +
			"Distinct = distinct histories; non-trivial = at least one error was raised.",
		Assumptions: []string{
			"relative order of errors from different sources is not asserted; 'same source' = same row for direct errors, same registration for callback errors",
			"what Row.Errors() returns after attach is only checked for nil entries",
			"whether a callback fires at all is C13's business; C11 requires every error that a callback did return to be reported exactly once",
		},
		Phases: []Phase{
			{Name: "bare container operation sequences x 3 container kinds", Exhaustive: true,
				N: func(th bool) int {
					if th {
						return c02SeqCount(nb, 5) * 3
					}
					return c02SeqCount(nb, 4) * 3
				}, Run: c11Containers},
			{Name: "random table histories with failing callbacks", N: Fixed(3000, 2000000), Run: c11History},
		},
	})
}
