package props

import (
	"fmt"
	"io"
	"os/exec"
	"reflect"
	"sort"
	"strings"
	"unicode"

	"go.pennock.tech/tabular"
	"go.pennock.tech/tabular/auto"
	"go.pennock.tech/tabular/csv"
	"go.pennock.tech/tabular/html"
	"go.pennock.tech/tabular/json"
	"go.pennock.tech/tabular/markdown"
	"go.pennock.tech/tabular/texttable"
	"go.pennock.tech/tabular/texttable/decoration"

	"verifharness/internal/gen"
)

// C19 - every advertised style works and style strings resolve as documented.
//
// Monitor: the full battery is re-run after each step of a registration history.

var c19Subs = []string{"csv", "html", "json", "markdown", "texttable"}

func c19Populate(t tabular.Table) {
	t.AddHeaders("name", "value")
	t.AddRowItems("alpha", 1)
	t.AddSeparator()
	t.AddRowItems("beta", "two\nlines")
}

func c19Direct(sub string) auto.RenderTable {
	switch sub {
	case "csv":
		return csv.New()
	case "html":
		return html.New()
	case "json":
		return json.New()
	case "markdown":
		return markdown.New()
	}
	return texttable.New()
}

func c19IsSub(s string) bool {
	l := strings.ToLower(s)
	for _, x := range c19Subs {
		if l == x {
			return true
		}
	}
	return false
}

type c19State struct {
	c    *Ctx
	log  []string
	desc map[string]interface{}
	bad  bool
}

func (s *c19State) viol(key, msg string) {
	if s.bad {
		return
	}
	s.bad = true
	s.desc["registrations"] = s.log
	s.c.Rec.Violate(key, msg, s.desc)
}

func nameClass(n string) string {
	switch {
	case n == "":
		return "empty-name"
	case strings.HasPrefix(strings.ToLower(n), "texttable."):
		return "name-starting-with-texttable-dot"
	case strings.Contains(n, "."):
		return "name-contains-dot"
	case c19IsSub(n):
		return "name-equals-subpackage"
	}
	return "plain-name"
}

func renderStyle(style string) (out string, err error, typ reflect.Type) {
	rt := auto.New(style)
	c19Populate(rt)
	out, err = rt.Render()
	return out, err, reflect.TypeOf(rt)
}

// variant i of the 2^len case variants of s
func caseVariant(s string, i int) string {
	b := []rune(s)
	for k := range b {
		if i&(1<<k) != 0 {
			b[k] = unicode.ToUpper(b[k])
		}
	}
	return string(b)
}

func (s *c19State) checkSubVariant(sub, style string) {
	ref := c19Direct(sub)
	c19Populate(ref)
	want, werr := ref.Render()
	got, gerr, typ := renderStyle(style)
	s.c.Rec.Count("subpackage_style_strings_checked", 1)
	if typ != reflect.TypeOf(ref) {
		s.viol("subpackage-dispatch:"+sub, fmt.Sprintf("auto.New(%q) is a %v, expected the %s renderer (%v)", style, typ, sub, reflect.TypeOf(ref)))
		return
	}
	if (gerr != nil) != (werr != nil) || got != want {
		s.viol("subpackage-output:"+sub, fmt.Sprintf("auto.New(%q) renders %q (err %v), the directly constructed %s table renders %q (err %v)", style, got, gerr, sub, want, werr))
	}
}

// battery checks everything the statement says about the current registry state.
func (s *c19State) battery(r *gen.R, exhaustiveSub int, mine []string) {
	if s.bad {
		return
	}
	s.c.Rec.Count("batteries_run", 1)
	list := auto.ListStyles()
	if !sort.StringsAreSorted(list) {
		s.viol("listing-unsorted", fmt.Sprintf("ListStyles() is not sorted: %q", list))
		return
	}
	have := map[string]bool{}
	for _, n := range list {
		have[n] = true
	}
	for _, n := range []string{"csv", "html", "json", "markdown"} {
		if !have[n] {
			s.viol("listing-misses-renderer", fmt.Sprintf("ListStyles() lacks the rendering sub-package %q: %q", n, list))
			return
		}
	}
	for _, n := range append(decoration.RegisteredDecorationNames(), mine...) {
		if !have[n] {
			s.viol("listing-misses-decoration", fmt.Sprintf("ListStyles() lacks the registered decoration %q", n))
			return
		}
	}
	for _, n := range []string{decoration.D_ASCII_SIMPLE, decoration.D_NONE, decoration.D_UTF8_LIGHT, decoration.D_UTF8_LIGHT_CURVED, decoration.D_UTF8_HEAVY, decoration.D_UTF8_DOUBLE} {
		if !have[n] {
			s.viol("listing-misses-decoration", fmt.Sprintf("ListStyles() lacks the built-in decoration %q", n))
			return
		}
	}
	// every listed name constructs and renders (when the process-wide registry has grown large:
	// this history's names, the built-ins and sub-packages, and a random sample of the rest)
	toRender := list
	if len(list) > 60 {
		toRender = append([]string{}, mine...)
		toRender = append(toRender, "csv", "html", "json", "markdown", decoration.D_ASCII_SIMPLE, decoration.D_NONE, decoration.D_UTF8_LIGHT, decoration.D_UTF8_LIGHT_CURVED, decoration.D_UTF8_HEAVY, decoration.D_UTF8_DOUBLE)
		for k := 0; k < 30; k++ {
			toRender = append(toRender, list[r.Intn(len(list))])
		}
	}
	for _, n := range toRender {
		out, err, _ := renderStyle(n)
		s.c.Rec.Count("listed_names_rendered", 1)
		if err != nil || out == "" {
			s.viol("listed-name-does-not-render:"+nameClass(n), fmt.Sprintf("ListStyles() lists %q but auto.New(%q) renders %q with error %v", n, n, out, err))
			return
		}
		// texttable.NAME selects the same decoration as NAME
		if decoration.Named(n) != decoration.EmptyDecoration && !c19IsSub(n) && !c19IsSub(strings.SplitN(n, ".", 2)[0]) {
			// ... and, the name being registered, that decoration is the one registered under it
			ref := texttable.New()
			c19Populate(ref)
			ref.SetDecoration(decoration.Named(n))
			// (asserted only where no other reading competes: when the name's first dot-section is itself a
			// registered decoration, resolving to that one with a trailing section would also satisfy the statement)
			competing := strings.Contains(n, ".") && decoration.Named(strings.SplitN(n, ".", 2)[0]) != decoration.EmptyDecoration
			if want, werr := ref.Render(); werr == nil && want != out && !competing {
				s.viol("listed-name-selects-another-decoration:"+nameClass(n), fmt.Sprintf("auto.New(%q) renders %q, but the decoration registered under that name renders %q", n, out, want))
				return
			}
			for _, pre := range []string{"texttable.", "TextTable.", "TEXTTABLE."} {
				out2, err2, typ2 := renderStyle(pre + n)
				s.c.Rec.Count("texttable_prefix_equivalences_checked", 1)
				if err2 != nil || out2 != out || typ2 != reflect.TypeOf(&texttable.TextTable{}) {
					s.viol("texttable-prefix-differs:"+nameClass(n), fmt.Sprintf("auto.New(%q) renders %q (err %v, %v) but auto.New(%q) renders %q", pre+n, out2, err2, typ2, n, out))
					return
				}
			}
		}
	}
	// whatever a bare style selects, the same style behind a texttable section selects too - also when the prefixed
	// string happens to be a registered name of its own (an application may register "texttable.utf8-light.wide")
	for k := 0; k < 6 && !s.bad; k++ {
		base := gen.Pick(r, list)
		if len(mine) > 0 && r.Bool() {
			base = gen.Pick(r, mine)
		}
		low := strings.ToLower(base)
		if strings.HasPrefix(low, "texttable.") && strings.Count(base, ".") >= 2 {
			base = base[len("texttable."):] // a registered name of the form texttable.X.Y: compare the bare X.Y with it
		}
		if first := strings.ToLower(strings.SplitN(base, ".", 2)[0]); first == "" || c19IsSub(first) {
			continue
		}
		style := base
		if r.Bool() {
			style = base + "." + r.Word()
		}
		out, err, _ := renderStyle(style)
		if err != nil {
			continue
		}
		for _, pre := range []string{"texttable.", "TextTable."} {
			out2, err2, _ := renderStyle(pre + style)
			s.c.Rec.Count("texttable_prefix_equivalences_checked", 1)
			if err2 != nil || out2 != out {
				s.viol("texttable-prefix-differs:dotted-style", fmt.Sprintf("auto.New(%q) renders %q, but auto.New(%q) renders %q (err %v)", style, out, pre+style, out2, err2))
				return
			}
		}
	}
	// plain 'texttable' is the default decoration
	for _, st := range []string{"texttable", "TextTable", "TEXTTABLE"} {
		s.checkSubVariant("texttable", st)
	}
	// sub-package names: case-insensitive, trailing sections ignored
	for si, sub := range c19Subs {
		nv := 1 << len(sub)
		if si == exhaustiveSub {
			for v := 0; v < nv && !s.bad; v++ {
				s.checkSubVariant(sub, caseVariant(sub, v))
			}
			s.c.Rec.Count("subpackages_with_all_case_variants_checked", 1)
		} else {
			for k := 0; k < 12 && !s.bad; k++ {
				s.checkSubVariant(sub, caseVariant(sub, r.Intn(nv)))
			}
		}
		if sub == "texttable" {
			continue
		}
		for k := 0; k < 6 && !s.bad; k++ {
			tail := gen.Pick(r, []string{".tsv", ".tab", ".TSV", ".foo.tsv", ".pretty", ".compact", ".indent", ".ascii", ".excel", ".gfm", ".", "..", ".x", ".utf8-light", ".csv", ".a.b.c", ". ", ".\n", "." + r.Str(gen.FAscii|gen.FHTML|gen.FWide, 3), ".texttable.none"})
			s.checkSubVariant(sub, caseVariant(sub, r.Intn(nv))+tail)
		}
	}
	// the listings belong to the caller: overwriting them must not disturb later listings
	for k := range list {
		list[k] = "\uffff scribbled by the caller"
	}
	_ = append(list[:0], "\uffff", "\uffff")
	regd := decoration.RegisteredDecorationNames()
	for k := range regd {
		regd[k] = "\uffff scribbled by the caller"
	}
	_ = append(regd, "\uffff", "\uffff", "\uffff", "\uffff", "\uffff")
	// unknown names fail closed
	for k := 0; k < 6 && !s.bad; k++ {
		base := fmt.Sprintf("zz-never-registered-%d-%s", r.Intn(1<<30), r.Word())
		d1, d2 := c19Derived(r), c19Derived(r)
		for _, st := range []string{base, base + ".x", "texttable." + base, base + ".csv", "Texttable." + base + ".utf8-light", d1, d2, d1 + "." + base, "texttable." + d2} {
			first := strings.SplitN(st, ".", 2)[0]
			if c19IsSub(first) && strings.ToLower(first) != "texttable" {
				continue // a derived name can come out as a sub-package name in another letter case
			}
			if c19Resolvable(st) {
				continue
			}
			s.c.Rec.Count("detail:unknown_names:"+c19UnknownClass(st, base), 1)
			out, err, _ := renderStyle(st)
			s.c.Rec.Count("unknown_names_checked", 1)
			if err == nil || out != "" {
				s.viol("unknown-name-renders", fmt.Sprintf("auto.New(%q) names nothing known but renders %q with error %v", st, out, err))
				return
			}
			if k%2 == 0 {
				st := st
				if bad := refusedEverywhere(func(w io.Writer) error {
					t := tabular.New()
					c19Populate(t)
					return auto.RenderTo(t, w, st)
				}); bad != "" {
					s.viol("unknown-name-renders:depending-on-the-destination", fmt.Sprintf("auto.RenderTo(t, w, %q) names nothing known, but %s", st, bad))
					return
				}
				s.c.Rec.Count("refusals_probed_with_every_kind_of_destination", 1)
			}
		}
	}
}

// c19Resolvable: some reading of the style names a registered decoration (the whole string, its first section,
// or - after a texttable section - the rest or the rest's first section).
func c19Resolvable(st string) bool {
	known := func(n string) bool { return decoration.Named(n) != decoration.EmptyDecoration }
	secs := strings.Split(st, ".")
	if known(st) || known(secs[0]) {
		return true
	}
	if strings.ToLower(secs[0]) == "texttable" {
		if len(secs) == 1 {
			return true
		}
		if known(strings.Join(secs[1:], ".")) || known(secs[1]) {
			return true
		}
	}
	return false
}

func c19UnknownClass(st, base string) string {
	if strings.Contains(st, base) {
		return "made-up"
	}
	return "nearly-a-known-name"
}

var c19SpecialNames = []string{"caf\xe9", "\xff\xfe", "na\xefve.style", "ok\xc3", "", ".", "a.b", "x.", ".y", "a..b", "a.b.c", "csv", "CSV", "Json", "html", "markdown", "MarkDown", "texttable", "TextTable", "texttable.foo", "TextTable.Bar.baz", "csv.special", "utf8-light.mine", "none.x", " ", "with space", "UTF8-LIGHT", "\u00fcn\u00ef", "-", "a/b", "\"q\"", "<b>"}

// c19Derived is a name that is nearly a known one: a sub-package name, a built-in decoration or a registered
// name with characters added at either end (no dot) or taken away, perhaps in another letter case.  Names are
// matched whole: "csvx", "html5", "json-lines" or "utf8-ligh" are names of their own.
func c19Derived(r *gen.R) string {
	var base string
	switch r.Intn(3) {
	case 0:
		base = gen.Pick(r, c19Subs)
	case 1:
		base = gen.Pick(r, []string{decoration.D_ASCII_SIMPLE, decoration.D_NONE, decoration.D_UTF8_LIGHT, decoration.D_UTF8_LIGHT_CURVED, decoration.D_UTF8_HEAVY, decoration.D_UTF8_DOUBLE})
	default:
		base = gen.Pick(r, decoration.RegisteredDecorationNames())
	}
	extra := gen.Pick(r, []string{"x", "5", "-lines", "2", "s", "_", "-", " ", "X", "table", "\u00e9"})
	rs := []rune(base)
	switch r.Intn(5) {
	case 0, 1:
		base = base + extra
	case 2:
		base = extra + base
	case 3:
		if len(rs) > 1 {
			base = string(rs[:len(rs)-1])
		}
	default:
		if len(rs) > 1 {
			base = string(rs[1:])
		}
	}
	if r.Chance(1, 3) {
		base = caseVariant(base, r.Intn(1<<uint(minInt(len([]rune(base)), 12))))
	}
	return base
}

func minInt(a, b int) int {
	if a < b {
		return a
	}
	return b
}

func c19Name(r *gen.R, hist int) string {
	switch r.Intn(8) {
	case 7:
		// a name of its own that reads like a prefixed style: texttable.<a registered name>.<word>
		return gen.Pick(r, []string{"texttable.", "texttable.", "TextTable."}) + gen.Pick(r, decoration.RegisteredDecorationNames()) + "." + r.Word()
	case 6:
		return c19Derived(r)
	case 5:
		// a name which extends an already registered one with a further dot-section
		return gen.Pick(r, decoration.RegisteredDecorationNames()) + "." + r.Word()
	case 0, 1:
		return gen.Pick(r, c19SpecialNames)
	case 2:
		return fmt.Sprintf("h%d.%s", hist, r.Word())
	default:
		return fmt.Sprintf("h%d-%s", hist, r.Str(gen.FAscii|gen.FWide, 3))
	}
}

func c19History(c *Ctx, i int, r *gen.R) {
	s := &c19State{c: c, desc: map[string]interface{}{}}
	c.Case = s.desc
	hist := c.Shard*1000000 + i
	var mine []string
	s.battery(r, i%len(c19Subs), nil)
	n := r.Range(1, 6)
	for k := 0; k < n && !s.bad; k++ {
		name := c19Name(r, hist)
		d, desc := randomDecoration(r)
		if r.Chance(2, 3) {
			// the style is used BEFORE its name is registered (it then resolves to something else or to nothing);
			// whatever that use leaves behind must not outlive the registration
			renderStyle(name)
			renderStyle("texttable." + name)
			s.log = append(s.log, fmt.Sprintf("auto.New(%q) and auto.New(%q) used before the registration", name, "texttable."+name))
		}
		decoration.RegisterDecorationName(name, d)
		mine = append(mine, name)
		s.log = append(s.log, fmt.Sprintf("RegisterDecorationName(%q, %s)", name, desc))
		s.c.Rec.Count("registrations", 1)
		s.c.Rec.Count("detail:registered:"+nameClass(name), 1)
		s.battery(r, (i+k+1)%len(c19Subs), mine)
	}
	c.Rec.Eval(gen.Hash64(fmt.Sprint(s.log)), true)
	if c.Rec.WantSample() && i%10 == 2 {
		c.Rec.Sample(map[string]interface{}{"registrations": s.log, "styles_listed_at_end": len(auto.ListStyles())})
	}
}

// each special name alone, registered into a fresh process-wide registry state, full battery with all case variants
func c19Specials(c *Ctx, i int, r *gen.R) {
	s := &c19State{c: c, desc: map[string]interface{}{}}
	c.Case = s.desc
	name := c19SpecialNames[i%len(c19SpecialNames)]
	d, desc := randomDecoration(r)
	renderStyle(name)
	renderStyle("texttable." + name)
	s.log = append(s.log, fmt.Sprintf("auto.New(%q) and auto.New(%q) used before the registration", name, "texttable."+name))
	decoration.RegisterDecorationName(name, d)
	s.log = append(s.log, fmt.Sprintf("RegisterDecorationName(%q, %s)", name, desc))
	c.Rec.Count("registrations", 1)
	for si := range c19Subs {
		s.battery(r, si, []string{name})
	}
	c.Rec.Eval(gen.Hash64("special", name), true)
}

func init() {
	register(&Prop{
		ID:    "C19",
		Level: "exploration",
		Rule: "phase 0 (exhaustive over a list): each of 28 special names (empty, dots in every position, names equal to sub-package names in several cases, names starting with 'texttable.', names extending built-in names, spaces, punctuation, markup, non-ASCII, upper-cased built-in) registered with a random complete decoration, followed by the battery with ALL 2^len case variants of all five sub-package names; " +
			"phase 1: registration histories of 1-6 names (special, dotted, plain in a per-history namespace, or extending an already registered name by a dot-section; two thirds of them used as a style string before they are registered) with the battery after every step: listing sorted / contains csv,html,json,markdown / contains every registered and built-in decoration; every listed name constructs and renders a header+rows table without error; 'texttable.NAME' (3 case forms of the prefix) gives the same type and bytes as bare NAME; plain 'texttable' (3 case forms) equals the default text table; all case variants of one sub-package name (rotating) and 12 random variants of the others, plus 6 random trailing-section strings each, give the directly constructed renderer's type and bytes; 30 never-registered style strings fail to render. " +
			"Distinct = distinct registration histories; all cases are non-trivial.",
		Assumptions: []string{
			"registered decorations are non-empty and complete (Populate()d); registering the empty decoration under a name is the fail-closed case of C17",
			"'texttable.NAME' == bare NAME is not asserted when NAME (or its first dot-section) case-insensitively equals a sub-package name: the statement gives sub-package names precedence",
			"case variants of decoration names are not asserted (decoration names are case sensitive); duplicates in the listing are not asserted",
			"the registry is process-global and grow-only: the battery judges the registry state it finds, so names left by earlier histories are tolerated",
		},
		Phases: []Phase{
			{Name: "28 special names, full case-variant battery", Exhaustive: true, N: Fixed(len(c19SpecialNames), len(c19SpecialNames)), Run: c19Specials},
			{Name: "registration histories with the battery after each step", N: Fixed(200, 20000), Run: c19History},
			{Name: "the application overwrites built-in names (each one, and all six): plain texttable stays the text renderer's default, the names follow the registry (one child process each)", Exhaustive: true, N: Fixed(7, 7), Run: c19Overwrite},
			{Name: "a program importing only tabular and tabular/auto: listing complete, every listed style works in every spelling (3 tables, one child process each)", Exhaustive: true, N: Fixed(3, 3), Run: c19MinAuto},
		},
	})
}

// ---------------------------------------------------------------------------
// The application overwrites built-in decoration names (the registry documents that it may): named styles follow,
// but plain "texttable" is the text renderer's default decoration, which is whatever texttable.New uses - not a
// registry entry.  Runs in a child process of its own (vcheck -aux c19overwrite <which>) because overwriting a
// built-in changes what that name means for the rest of the process.

func init() { auxModes["c19overwrite"] = c19OverwriteChild }

func c19OverwriteChild(args []string) int {
	if len(args) < 1 {
		return 3
	}
	which := args[0] // one built-in name, or "all"
	bad := func(f string, a ...interface{}) int { fmt.Printf("BAD: "+f+"\n", a...); return 0 }
	build := func(t tabular.Table) {
		t.AddHeaders("k", "v")
		t.AddRowItems("a", 1)
		t.AddSeparator()
		t.AddRowItems("two\nlines", "x")
	}
	mine := decoration.Decoration{Horizontal: "=", Vertical: "!", CrossPiece: "#"}
	mine.Populate()
	for _, n := range c19Builtin {
		if which == "all" || which == n {
			decoration.RegisterDecorationName(n, mine)
		}
	}
	t0 := texttable.New()
	build(t0)
	def, err := t0.Render()
	if err != nil || def == "" {
		return bad("after overwriting %s, texttable.New() does not render: %q %v", which, def, err)
	}
	for _, style := range []string{"texttable", "TextTable", "TEXTTABLE", "texttable"} {
		t1 := auto.New(style)
		build(t1)
		got, err := t1.Render()
		if err != nil || got != def {
			return bad("after the application overwrote the built-in name(s) %s, auto.New(%q) renders %q (error %v); the text renderer's default decoration (texttable.New) gives %q", which, style, got, err, def)
		}
		t2 := tabular.New()
		build(t2)
		if got, err := auto.Render(t2, style); err != nil || got != def {
			return bad("after the application overwrote the built-in name(s) %s, auto.Render(t, %q) gives %q (error %v); texttable.New gives %q", which, style, got, err, def)
		}
		if got, err := texttable.Render(t2); err != nil || got != def {
			return bad("after the application overwrote the built-in name(s) %s, texttable.Render(t) gives %q (error %v); texttable.New gives %q", which, got, err, def)
		}
	}
	// the names themselves follow the registry
	for _, n := range c19Builtin {
		if which != "all" && which != n {
			continue
		}
		t3 := tabular.New()
		build(t3)
		want, _ := texttable.Wrap(t3).SetDecoration(mine).Render()
		for _, style := range []string{n, "texttable." + n} {
			if got, err := auto.Render(t3, style); err != nil || got != want {
				return bad("after RegisterDecorationName(%q, X), auto.Render(t, %q) gives %q (error %v), rendering with X gives %q", n, style, got, err, want)
			}
		}
	}
	if ls := auto.ListStyles(); !sort.StringsAreSorted(ls) {
		return bad("after overwriting %s the style listing is not sorted: %q", which, ls)
	}
	fmt.Println("OK")
	return 0
}

func c19Overwrite(c *Ctx, i int, r *gen.R) {
	which := append([]string{"all"}, c19Builtin...)[i%(len(c19Builtin)+1)]
	desc := map[string]interface{}{"built_in_names_overwritten_by_the_application": which}
	c.Case = desc
	var out []byte
	var err error
	waitingForChild(func() { out, err = exec.Command(c.Exe, "-aux", "c19overwrite", which).CombinedOutput() })
	c.Rec.Eval(gen.Hash64("overwrite", which), true)
	c.Rec.Count("overwrite_probes_in_child_processes", 1)
	s := strings.TrimSpace(string(out))
	switch {
	case err != nil:
		c.Rec.Violate("overwritten-built-in:child-died", fmt.Sprintf("the child process overwriting %s died: %v; output %q", which, err, s), desc)
	case strings.HasPrefix(s, "BAD:"):
		c.Rec.Violate("overwritten-built-in:plain-texttable-or-named-style", s, desc)
	case !strings.HasSuffix(s, "OK"):
		c.Rec.Inconclusive("overwrite child printed neither OK nor BAD: " + s)
	}
}
