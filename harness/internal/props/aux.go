package props

import (
	"fmt"
	"os"
)

// auxModes are auxiliary child-process entry points (vcheck -aux <mode> args...).
var auxModes = map[string]func(args []string) int{}

// RunAux dispatches an auxiliary child mode.
func RunAux(mode string, args []string) int {
	f := auxModes[mode]
	if f == nil {
		fmt.Fprintln(os.Stderr, "unknown aux mode", mode)
		return 3
	}
	return f(args)
}
