package props

import (
	"fmt"
	"strings"

	"go.pennock.tech/tabular"
	"go.pennock.tech/tabular/length"
	"go.pennock.tech/tabular/texttable"

	"verifharness/internal/gen"
	"verifharness/internal/model"
)

// C04 - text table shows every cell line in its own slot, aligned as the column asks.
//
// Oracle: the C03 parser with the padding split fixed by the effective
// alignment, declared widths driving the padding of single-line items, and
// declared heights as lower bounds on the row's line count.

const c04Fam = gen.FAscii | gen.FWide | gen.FCombining | gen.FZero | gen.FEmoji | gen.FSGR | gen.FEdge

func c04Item(r *gen.R) gen.ItemSpec {
	switch r.Intn(10) {
	case 0, 1:
		// single-line item declaring a width (and maybe a height)
		txt := strings.ReplaceAll(r.Str(c04Fam, 4), "\n", "")
		if r.Chance(1, 6) {
			txt += "\n" // still one line
		}
		code := gen.Pick(r, []string{"VS_W", "VS_HW", "PS_HW", "VG_W", "VSE_HW", "VE_W"})
		f := gen.Fields{S: txt, G: txt, E: txt, HV: r.DeclSize(), WV: r.DeclSize()}
		if r.Chance(1, 2) {
			// the documented use: declared width = visible width of text carrying escape codes
			vis := r.Str(gen.FAscii|gen.FWide, 3)
			vis = strings.ReplaceAll(vis, "\n", "")
			f.S, f.G, f.E = "\x1b[1m"+vis+"\x1b[0m", "\x1b[1m"+vis+"\x1b[0m", "\x1b[1m"+vis+"\x1b[0m"
			f.WV = length.StringCells(vis)
		}
		return gen.TypedItem(code, f, code[0] == 'P' || r.Bool())
	case 2:
		// item declaring a height only; text may have any number of lines
		txt := r.Str(c04Fam|gen.FNewline, 5)
		code := gen.Pick(r, []string{"VS_H", "PS_H", "VG_H", "VSG_H"})
		return gen.TypedItem(code, gen.Fields{S: txt, G: txt, E: txt, HV: r.DeclSize()}, code[0] == 'P' || r.Bool())
	default:
		return r.TextItem(c04Fam|gen.FNewline, 5)
	}
}

// c04AlignFromCallback registers a table-level pre-cell render callback which puts the assignment in force.
func c04AlignFromCallback(t *tabular.ATable, aligns []int) {
	t.RegisterPropertyCallback(t, tabular.CB_AT_RENDER_PRECELL, tabular.CB_ON_ITSELF, cbFunc(func(tabular.PropertyOwner) error {
		setAlignsExactly(t, aligns)
		return nil
	}))
}

func c04Check(c *Ctx, spec *gen.TableSpec, aligns []int, decos []namedDeco, st *stage, sample bool) {
	t0 := tabular.New()
	reused := texttable.Wrap(t0)
	// in a fifth of the cases the assignment is made by the application's own render-time callback on the table
	// (an "align the numeric columns" hook): the table's pre-cell callback runs first in every pass, before any
	// cell is laid out, so what it sets is the columns' setting for that render
	viaCallback := gen.Hash64(spec.Shape(), fmt.Sprint(aligns))%5 == 0
	var b *gen.Built
	if st != nil {
		b = spec.BuildStagedN(t0, st.points(), func() {
			applyAligns(t0, st.PreAligns)
			o, _ := reused.Render()
			c.Keep(o, "an earlier Render through the same wrapper")
		})
		applyAligns(t0, st.PreAligns)
		reused.SetDecoration(decos[len(decos)-1].d).Render()
		if gen.Hash64(spec.Shape(), "finalize")%4 == 0 {
			// the items reach their final state, and their cells are updated, from inside the judged render
			b.FinalizeFromCallbacks()
			c.Rec.Count("staged_cases_whose_items_are_refreshed_by_pre-cell_callbacks_during_the_judged_render", 1)
		} else {
			b.Finalize()
		}
		if viaCallback {
			c04AlignFromCallback(t0, aligns)
		} else {
			setAlignsExactly(t0, aligns) // puts the final assignment in force, withdrawing what the earlier one set
		}
		c.Rec.Count("staged_cases(render, change, render again through the same wrapper)", 1)
	} else {
		b = spec.Build(t0)
		if viaCallback {
			c04AlignFromCallback(t0, aligns)
		} else {
			applyAligns(b.T, aligns)
		}
	}
	if viaCallback {
		c.Rec.Count("cases_whose_alignments_are_assigned_by_a_render-time_callback_of_the_table", 1)
	}
	m := textModelOf(spec) // after the build: a table whose wider header was replaced says itself how many columns it has
	m.Aligns = make([]int, m.NCols)
	for i := range m.Aligns {
		m.Aligns[i] = effectiveAlign(aligns, i+1)
	}
	widths := model.ColumnWidths(m, length.StringCells)
	declW, declH := false, false
	each := func(it *gen.ItemSpec) {
		if _, ok := it.DeclW(); ok {
			declW = true
		}
		if _, ok := it.DeclH(); ok {
			declH = true
		}
	}
	for i := range spec.Header {
		each(&spec.Header[i])
	}
	for i := range spec.Rows {
		for j := range spec.Rows[i].Items {
			each(&spec.Rows[i].Items[j])
		}
	}
	anyAlign := false
	for _, a := range aligns {
		if a > 1 {
			anyAlign = true
		}
	}
	nontrivial := spec.NBody() > 0 && (anyAlign || declW || declH)
	for _, nd := range decos {
		cs := &c03Case{Table: *spec, Decoration: nd.name, Aligns: aligns}
		if st != nil {
			cs.Mode = st.Note
		}
		c.Case = cs
		var out string
		var err error
		if st != nil {
			out, err = reused.SetDecoration(nd.d).Render()
		} else {
			out, err = renderText(b.T, nd)
		}
		c.Rec.Eval(gen.Hash64(spec.Shape(), fmt.Sprint(spec.HeaderTexts()), fmt.Sprint(textsOf(spec)), nd.name, fmt.Sprint(aligns)), nontrivial)
		if err != nil {
			if out != "" {
				c.Rec.Violate("text:text-with-error", fmt.Sprintf("Render returned %d bytes together with error %v", len(out), err), cs)
				return
			}
			c.Rec.Count("renders_refused", 1)
			continue
		}
		c.Rec.Count("outputs_parsed", 1)
		if declW {
			c.Rec.Count("outputs_with_width_declaring_items", 1)
		}
		if declH {
			c.Rec.Count("outputs_with_height_declaring_items", 1)
		}
		if anyAlign {
			c.Rec.Count("outputs_with_right_or_centre_alignment", 1)
		}
		c.Rec.Count("lines_parsed", int64(strings.Count(out, "\n")))
		if perr := parseText(out, nd, m); perr != nil {
			// classify: does it at least parse with any split of the padding?
			loose := *m
			loose.Aligns = nil
			key := "text:" + perr.Class
			if lerr := model.ParseTextTable(out, nd.glyphs, nd.boxless, &loose, length.StringCells); lerr == nil {
				key = "text:padding-split-not-as-aligned"
			}
			if declW {
				key += ":with-width-declaring-item"
			}
			if declH {
				key += ":with-height-declaring-item"
			}
			c.Rec.Violate(key, fmt.Sprintf("under decoration %s, effective alignments %v, column widths %v: %s; output:\n%s", nd.name, m.Aligns, widths, perr.Msg, out), cs)
			return
		}
		if sample && nontrivial && c.Rec.WantSample() {
			c.Rec.Sample(map[string]interface{}{"case": cs, "output_lines": strings.Split(out, "\n")})
		}
	}
}

func c04Random(c *Ctx, i int, r *gen.R) {
	spec := r.Table(gen.TableOpts{MaxCols: 5, MaxRows: 6, ZeroHeaderOK: true, MinCols: 1, Item: c04Item, Noise: gen.NoiseSkipable | gen.NoiseCallbacks | gen.NoiseFailingCallbacks | gen.NoiseAlignElsewhere})
	aligns := make([]int, spec.NCols()+1)
	if r.Chance(4, 5) {
		for k := range aligns {
			aligns[k] = r.Intn(4)
		}
	}
	decos := allDecorations(c, r, 1)
	// a sample of the decorations per table keeps the cost down; all of them over the run
	k := r.Intn(len(decos))
	c04Check(c, &spec, aligns, []namedDeco{decos[k], decos[(k+3)%len(decos)]}, drawStage(r, len(spec.Rows), spec.NCols()), true)
}

// every alignment assignment to column 0 and 3 columns on a fixed ragged table with odd and even paddings
func c04Alignments(c *Ctx, i int, r *gen.R) {
	aligns := []int{i % 4, (i / 4) % 4, (i / 16) % 4, (i / 64) % 4}
	variant := i / 256
	var spec gen.TableSpec
	spec.HasHeader = true
	switch variant {
	case 0:
		spec.Header = []gen.ItemSpec{gen.StrItem("a"), gen.StrItem("bb"), gen.StrItem("ccc")}
		spec.Rows = []gen.RowSpec{
			{Items: []gen.ItemSpec{gen.StrItem("1234"), gen.StrItem("1\n12345\n12"), gen.StrItem("\u4e16")}},
			{Sep: true},
			{Items: []gen.ItemSpec{gen.StrItem("xy")}},
			{Items: []gen.ItemSpec{}},
		}
	case 1:
		spec.Header = []gen.ItemSpec{gen.StrItem("h")}
		spec.Rows = []gen.RowSpec{
			{Items: []gen.ItemSpec{gen.TypedItem("VS_W", gen.Fields{S: "\x1b[1mab\x1b[0m", WV: 2}, false), gen.StrItem("abcd"), gen.TypedItem("VS_H", gen.Fields{S: "p\nq\nr", HV: 1}, false)}},
			{Items: []gen.ItemSpec{gen.StrItem("abcde"), gen.TypedItem("VS_HW", gen.Fields{S: "zz", HV: 3, WV: 7}, false), gen.StrItem("k")}, Mode: gen.ModeNewRowAdd},
		}
	}
	var st *stage
	if i%2 == 1 {
		st = &stage{At: i % 3, PreAligns: []int{(i / 4) % 4, i % 4, (i / 16) % 4, (i / 2) % 4}, Note: "staged: wrapper reused, other alignments at the first render"}
	}
	c04Check(c, &spec, aligns, allDecorations(c, r, 0), st, i%100 == 17)
}

func init() {
	register(&Prop{
		ID:    "C04",
		Level: "exploration",
		Rule: "phase 0 (exhaustive): every assignment of {unset,left,right,centre} to column 0 and 3 columns (256) on 2 fixed ragged tables (odd and even paddings, multi-line and wide cells, separator, short and zero-cell rows; the second with width- and height-declaring items) under every registered decoration; " +
			"phase 1: random grids as in C03 with a random alignment assignment (4/5 of the cases) and items drawn 2/10 as single-line width-declaring (half of them text carrying SGR escape codes with declared width = visible width; declared sizes otherwise from [-3,40]), 1/10 as height-declaring (declared <, =, > actual lines, 0, negative), rest plain; 2 decorations per table (registered and random custom). " +
			"The C03 parser is run with the padding split fixed per column: left/unset all right, right all left, centre floor(p/2) left. Distinct = distinct (shape, texts, decoration, alignments); non-trivial = a body row plus right/centre alignment or a size-declaring item.",
		Assumptions: []string{
			"multi-line items that also declare a width are not generated (the statement covers single-line items)",
			"rows containing a height-declaring item must have at least max(declared, actual) lines; the exact count is asserted only for rows without such items",
			"invalid Alignment values are outside the statement",
			"same width measure and glyph assumptions as C03",
		},
		Phases: []Phase{
			{Name: "all alignment assignments x 2 fixed tables x registered decorations", Exhaustive: true, N: Fixed(512, 512), Run: c04Alignments},
			{Name: "random grids with alignments and size-declaring items", N: Fixed(4000, 400000), Run: c04Random},
		},
	})
}
