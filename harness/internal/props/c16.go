package props

import (
	"bytes"
	"fmt"
	"go.pennock.tech/tabular/length"
	"html/template"
	"io"
	"os"
	"os/exec"
	"runtime"
	"strconv"
	"strings"
	"sync"
	"sync/atomic"
	"time"

	"go.pennock.tech/tabular"
	"go.pennock.tech/tabular/auto"
	"go.pennock.tech/tabular/csv"
	"go.pennock.tech/tabular/html"
	"go.pennock.tech/tabular/json"
	"go.pennock.tech/tabular/markdown"
	"go.pennock.tech/tabular/properties/align"
	"go.pennock.tech/tabular/texttable"
	"go.pennock.tech/tabular/texttable/decoration"

	"verifharness/internal/gen"
)

// C16 - independent tables can be built and rendered concurrently.
//
// Monitors: the Go race detector (built with -race; the parent parses its
// log) and equality of every concurrent output with the output of the same
// table built and rendered alone beforehand.

type c16Job struct {
	spec       gen.TableSpec
	aligns     []int
	order      []int // order in which this goroutine renders the formats
	reuse      bool  // one table for all renders of this job (state accumulates on it) instead of a fresh one per render
	poolAt     int
	slowYields int
	slow       func(s string, yields int) interface{} // maker of an item of a dynamic type this process has not seen before this batch (same type for the whole batch)
	pool       []tabular.Cell                         // cells prepared once by the parent for the whole batch; a job takes by-value copies of them into its own tables
}

type c16Res struct {
	out string
	err bool
}

var c16SlowNext int32

var c16PropKeys = []interface{}{"c16-a", "c16-b", &struct{ n string }{"c16-c"}}

// c16Work is what one goroutine does with its job: build its own table(s), and before every render put
// property traffic on its own table, column 0 and first cell (three keys in rotating order, so that keys
// below the most recent one are replaced), render, and read the properties back.  The same function
// produces the sequential reference.
func c16Work(j *c16Job, g int, formats []c16Format, done func(fi int, r c16Res)) {
	var shared tabular.Table
	if j.reuse {
		shared = c16Build(j)
	}
	for k, fi := range j.order {
		t := shared
		if t == nil {
			t = c16Build(j)
		}
		owners := []tabular.PropertyOwner{t, t.Column(0)}
		if cell, err := t.CellAt(tabular.CellLocation{Row: 1, Column: 1}); err == nil {
			owners = append(owners, cell)
		}
		for o, ow := range owners {
			for q := 0; q < 2; q++ {
				ow.SetProperty(c16PropKeys[(k+q+o)%3], g*1000+k*10+q)
			}
		}
		out, err := formats[fi].f(t, g)
		var sb strings.Builder
		sb.WriteString(out)
		for _, ow := range owners {
			for _, key := range c16PropKeys {
				fmt.Fprintf(&sb, "|%v", ow.GetProperty(key))
			}
		}
		done(fi, c16Res{sb.String(), err != nil})
	}
}

type c16Format struct {
	name string
	f    func(t tabular.Table, g int) (string, error)
}

func c16Formats() []c16Format {
	fs := []c16Format{
		{"csv", func(t tabular.Table, g int) (string, error) { return csv.Wrap(t).Render() }},
		{"json", func(t tabular.Table, g int) (string, error) { return json.Wrap(t).Render() }},
		{"markdown", func(t tabular.Table, g int) (string, error) { return markdown.Wrap(t).Render() }},
		{"html", func(t tabular.Table, g int) (string, error) {
			h := html.Wrap(t)
			h.Caption = fmt.Sprintf("table of goroutine %d", g)
			ctx := &struct{ n int }{}
			h.SetRowClassGenerator(func(n int, c interface{}) template.HTMLAttr {
				c.(*struct{ n int }).n++
				return template.HTMLAttr(fmt.Sprintf("g%d-r%d", g, n))
			}, ctx)
			a, err := h.Render()
			if err != nil {
				return a, err
			}
			b, err := h.Render() // second render through the cached template
			return a + b, err
		}},
		{"auto:markdown", func(t tabular.Table, g int) (string, error) { return auto.Render(t, "markdown") }},
	}
	for _, name := range c17Builtins {
		name := name
		fs = append(fs, c16Format{"text:" + name, func(t tabular.Table, g int) (string, error) {
			tt, err := texttable.Wrap(t).SetDecorationNamed(name)
			if err != nil {
				return "", err
			}
			return tt.Render()
		}})
	}
	fs = append(fs, c16Format{"auto:utf8-double", func(t tabular.Table, g int) (string, error) { return auto.Render(t, "utf8-double") }})
	// a decoration of the goroutine's own, completed with Populate() inside the goroutine: completing a value is
	// part of "building and rendering in any decorations"
	fs = append(fs, c16Format{"text:own decoration completed by Populate", func(t tabular.Table, g int) (string, error) {
		d := decoration.Decoration{Horizontal: string(rune('a' + g%26)), Vertical: string(rune('A' + g%26)), CrossPiece: string(rune('0' + g%10))}
		d.Populate()
		return texttable.Wrap(t).SetDecoration(d).Render()
	}})
	// the caller's io.Writer is the library's one suspension point: a writer that yields the processor on
	// every Write parks a render between any two of its writes, while other goroutines render
	yielding := func(name string, to func(t tabular.Table, w io.Writer) error) {
		fs = append(fs, c16Format{name + ":yielding-writer", func(t tabular.Table, g int) (string, error) {
			w := &yieldWriter{}
			err := to(t, w)
			if err != nil {
				return "", err
			}
			return string(w.b), nil
		}})
	}
	yielding("json", func(t tabular.Table, w io.Writer) error { return json.Wrap(t).RenderTo(w) })
	yielding("csv", func(t tabular.Table, w io.Writer) error { return csv.Wrap(t).RenderTo(w) })
	yielding("markdown", func(t tabular.Table, w io.Writer) error { return markdown.Wrap(t).RenderTo(w) })
	yielding("html", func(t tabular.Table, w io.Writer) error { return html.Wrap(t).RenderTo(w) })
	yielding("text", func(t tabular.Table, w io.Writer) error { return texttable.Wrap(t).RenderTo(w) })
	// wrappers the goroutine holds BY VALUE (a copy of what Wrap returned, the original dropped - a struct field, a slice
	// element): the copy is rendered several times while everybody else wraps and renders
	fs = append(fs, c16Format{"text:through-a-by-value-copy-of-a-wrapper-rendered-3-times", func(t tabular.Table, g int) (string, error) {
		tv := *texttable.Wrap(t)
		var out string
		var err error
		for k := 0; k < 3; k++ {
			runtime.Gosched()
			o, e := tv.Render()
			if k > 0 && (o != out || (e != nil) != (err != nil)) {
				return "render " + fmt.Sprint(k+1) + " through the same by-value wrapper differs from the first: " + o, e
			}
			out, err = o, e
		}
		return out, err
	}})
	fs = append(fs, c16Format{"html:through-a-by-value-copy-of-a-wrapper-rendered-twice", func(t tabular.Table, g int) (string, error) {
		hv := *html.Wrap(t)
		hv.Caption = "by value"
		a, err := hv.Render()
		if err != nil {
			return "", err
		}
		runtime.Gosched()
		b, err := hv.Render()
		return a + b, err
	}})
	// ... and into destinations of the types real programs hand over, every goroutine its own: a regular *os.File
	// for all of them at once, and one whose type rotates with the goroutine (buffers, builders, pipes, files
	// opened for appending, a bufio.Writer); whatever a renderer does for a particular kind of destination, it does
	// for this render only
	real := func(name string, to func(t tabular.Table, w io.Writer) error) {
		k := len(fs)
		fs = append(fs, c16Format{name + ":into-a-regular-*os.File", func(t tabular.Table, g int) (string, error) {
			return renderInto(7, func(w io.Writer) error { return to(t, w) })
		}})
		fs = append(fs, c16Format{name + ":into-a-destination-whose-type-rotates-with-the-goroutine", func(t tabular.Table, g int) (string, error) {
			return renderInto(g+k, func(w io.Writer) error { return to(t, w) })
		}})
	}
	real("text", func(t tabular.Table, w io.Writer) error { return texttable.Wrap(t).RenderTo(w) })
	real("csv", func(t tabular.Table, w io.Writer) error { return csv.Wrap(t).RenderTo(w) })
	real("json", func(t tabular.Table, w io.Writer) error { return json.RenderTo(t, w) })
	real("markdown", func(t tabular.Table, w io.Writer) error { return markdown.Wrap(t).RenderTo(w) })
	real("html", func(t tabular.Table, w io.Writer) error { return html.Wrap(t).RenderTo(w) })
	real("auto:utf8-heavy", func(t tabular.Table, w io.Writer) error { return auto.RenderTo(t, w, "utf8-heavy") })
	return fs
}

// yieldWriter accepts everything and yields the processor on every Write.
type yieldWriter struct{ b []byte }

func (w *yieldWriter) Write(p []byte) (int, error) {
	w.b = append(w.b, p...)
	runtime.Gosched()
	return len(p), nil
}

func c16Build(j *c16Job) tabular.Table {
	t := tabular.New()
	j.spec.Build(t)
	if j.slow != nil && j.spec.NCols() > 0 {
		t.AddRowItems(j.slow("badge\nline", j.slowYields))
	}
	if len(j.pool) > 0 {
		// values of common provenance: every goroutine's table gets its own by-value copies of the same prepared
		// cells (as a row of cells and as items), the way a program fills many tables from one set of constants
		// (no wider than the table already is, so that every renderer still accepts it)
		if n := j.spec.NCols(); n > 0 {
			row := tabular.NewRow()
			for k := 0; k < n && k < len(j.pool); k++ {
				row.Add(j.pool[(k+j.poolAt)%len(j.pool)])
			}
			t.AddRow(row)
			t.AddRowItems(j.pool[(j.poolAt+3)%len(j.pool)])
		}
	}
	applyAligns(t, j.aligns)
	return t
}

// c16Pool prepares the cells shared (by value) by the jobs of one batch.
func c16Pool(r *gen.R) []tabular.Cell {
	texts := []string{"pooled", "two\nlines", "\u4e16\u754c wide", "", r.Word()}
	var out []tabular.Cell
	for _, s := range texts {
		out = append(out, tabular.NewCell(s))
	}
	out = append(out, tabular.NewCell(42), tabular.NewCell(&gen.PS_0{S: "pooled stringer"}))
	return out
}

func c16Run(c *Ctx, i int, r *gen.R) {
	gs := []int{2, 8, 16, 32, 64}
	G := gs[i%len(gs)]
	if !c.Thorough && G > 32 {
		G = 16
	}
	formats := c16Formats()
	jobs := make([]*c16Job, G)
	pool := c16Pool(r)
	// a dynamic type nobody in this process has put into a cell yet: every goroutine of the batch meets it for the
	// first time, at the same time
	var slow func(s string, yields int) interface{}
	if k := int(atomic.AddInt32(&c16SlowNext, 1)) - 1; k < len(c16SlowMakers) {
		slow = c16SlowMakers[k]
		c.Rec.Count("batches_in_which_all_goroutines_meet_a_new_item_type_at_once", 1)
	}
	for g := range jobs {
		spec := r.Table(gen.TableOpts{MaxCols: 4, MaxRows: 5, ZeroHeaderOK: true, MinCols: 0, Noise: gen.NoiseSkipable | gen.NoiseAlign | gen.NoiseCallbacks,
			Item: func(r *gen.R) gen.ItemSpec {
				if r.Chance(1, 10) {
					return c04Item(r)
				}
				if r.Chance(1, 25) {
					// a very wide cell: paddings of the other cells of its column exceed any fixed scratch size
					return gen.StrItem(strings.Repeat(gen.Pick(r, []string{"w", "=", "\u4e16"}), r.Range(81, 400)))
				}
				return r.TextItemSized(c10Fam, 4, length.StringCells)
			}})
		if r.Chance(1, 6) && spec.NCols() > 0 && len(spec.Rows) > 0 {
			// headers every renderer accepts plus an item encoding/json refuses: this job's JSON renders fail part-way
			spec.HasHeader, spec.Header = true, nil
			for k := 0; k < spec.NCols(); k++ {
				spec.Header = append(spec.Header, gen.StrItem(fmt.Sprintf("key%d", k+1)))
			}
			if spec.HeaderAt > len(spec.Rows) {
				spec.HeaderAt = len(spec.Rows)
			}
			for k := range spec.Rows {
				if !spec.Rows[k].Sep && len(spec.Rows[k].Items) > 0 {
					spec.Rows[k].Items[len(spec.Rows[k].Items)-1] = gen.ItemSpec{K: gen.Pick(r, []string{"nan", "inf"})}
					break
				}
			}
		}
		j := &c16Job{spec: spec, aligns: make([]int, spec.NCols()+1), order: r.Perm(len(formats)), reuse: r.Bool()}
		for k := range j.aligns {
			j.aligns[k] = r.Intn(4)
		}
		_ = align.Left
		if r.Chance(2, 3) {
			j.pool, j.poolAt = pool, r.Intn(len(pool))
		}
		j.slow = slow
		if g%2 == 0 {
			j.slowYields = 300 // half of the instances take long over their text, the others answer at once
		}
		jobs[g] = j
	}
	desc := map[string]interface{}{"goroutines": G, "formats": len(formats), "gomaxprocs": runtime.GOMAXPROCS(0)}
	c.Case = desc
	type res = c16Res
	// concurrent phase
	got := make([][]res, G)
	var seq int64
	completion := make([]int32, G*len(formats))
	var wg sync.WaitGroup
	start := make(chan struct{})
	stop := make(chan struct{})
	var readerOps int64
	for k := 0; k < 2; k++ {
		go func(k int) {
			<-start
			for {
				select {
				case <-stop:
					return
				default:
				}
				names := decoration.RegisteredDecorationNames()
				for _, n := range names {
					_ = decoration.Named(n)
				}
				_ = auto.ListStyles()
				atomic.AddInt64(&readerOps, int64(len(names)+2))
				runtime.Gosched()
			}
		}(k)
	}
	// a third background goroutine keeps the garbage collector running (and finalizers with it) in every other
	// batch: object lifetime is part of the schedule
	var gcRuns int64
	if i%2 == 1 {
		go func() {
			<-start
			for {
				select {
				case <-stop:
					return
				default:
				}
				runtime.GC()
				atomic.AddInt64(&gcRuns, 1)
				time.Sleep(200 * time.Microsecond)
			}
		}()
	}
	for g := range jobs {
		wg.Add(1)
		go func(g int) {
			defer wg.Done()
			j := jobs[g]
			got[g] = make([]res, len(formats))
			<-start
			// tables are built inside the goroutine: building is part of the workload
			if p, val, st := Guard(func() {
				c16Work(j, g, formats, func(fi int, r c16Res) {
					got[g][fi] = r
					n := atomic.AddInt64(&seq, 1)
					completion[n-1] = int32(g)
				})
			}); p {
				c.Rec.ViolateStack("panic-in-concurrent-render@"+PanicSite(st), fmt.Sprintf("goroutine %d panicked while building/rendering its own table: %v", g, val), map[string]interface{}{"table": j.spec}, st)
			}
		}(g)
	}
	close(start)
	wg.Wait()
	close(stop)
	// reference: every job built and rendered alone, sequentially - AFTER the concurrent phase, so that
	// process-wide state which only grows (caches, pools, scratch space) is first touched under concurrency
	ref := make([][]res, G)
	for g, j := range jobs {
		ref[g] = make([]res, len(formats))
		g := g
		c16Work(j, g, formats, func(fi int, r c16Res) { ref[g][fi] = r })
	}
	c.Rec.Count("goroutines_run", int64(G))
	c.Rec.Count("concurrent_renders", int64(G*len(formats)))
	c.Rec.Count("registry_reads_by_background_goroutines", atomic.LoadInt64(&readerOps))
	c.Rec.Count("garbage_collections_forced_by_a_background_goroutine_during_batches", atomic.LoadInt64(&gcRuns))
	c.Rec.Max("max:goroutines_in_one_batch", int64(G))
	c.Rec.Eval(gen.Hash64(fmt.Sprint(completion), fmt.Sprint(G, i)), true)
	for g := range jobs {
		for fi := range formats {
			c.Rec.Count("outputs_compared_with_sequential", 1)
			if got[g][fi] != ref[g][fi] {
				d := map[string]interface{}{"goroutines": G, "table": jobs[g].spec, "format": formats[fi].name}
				c.Rec.Violate("concurrent-output-differs:"+formatClass(formats[fi].name), fmt.Sprintf("goroutine %d of %d, format %s: concurrent render gave %q (error=%v), the same table rendered alone gave %q (error=%v)", g, G, formats[fi].name, got[g][fi].out, got[g][fi].err, ref[g][fi].out, ref[g][fi].err), d)
				return
			}
		}
	}
	if c.Rec.WantSample() && i%4 == 1 {
		co := completion
		if len(co) > 60 {
			co = co[:60]
		}
		c.Rec.Sample(map[string]interface{}{"goroutines": G, "gomaxprocs": runtime.GOMAXPROCS(0), "first_table": jobs[0].spec, "completion_order_prefix(goroutine ids)": co})
	}
}

// ---- many renders in flight at the same instant

// c16Gate lets every one of N goroutines block inside the first Write of its render until all N are there (a
// render that finishes without writing counts as arrived), so that N renders of N independent tables are in
// flight at once - what a server writing to N slow connections sees.
type c16Gate struct {
	mu   sync.Mutex
	need int
	have int
	ch   chan struct{}
}

func (g *c16Gate) arrive() {
	g.mu.Lock()
	g.have++
	if g.have == g.need {
		close(g.ch)
	}
	g.mu.Unlock()
}

type c16GateWriter struct {
	g       *c16Gate
	arrived bool
	b       []byte
}

func (w *c16GateWriter) Write(p []byte) (int, error) {
	if !w.arrived {
		w.arrived = true
		w.g.arrive()
		<-w.g.ch
	}
	w.b = append(w.b, p...)
	return len(p), nil
}

func c16InFlight(c *Ctx, i int, r *gen.R) {
	ns := []int{65, 100, 130, 200, 257, 70}
	N := ns[i%len(ns)]
	tos := []struct {
		name string
		to   func(t tabular.Table, w io.Writer) error
	}{
		{"text", func(t tabular.Table, w io.Writer) error { return texttable.Wrap(t).RenderTo(w) }},
		{"csv", func(t tabular.Table, w io.Writer) error { return csv.Wrap(t).RenderTo(w) }},
		{"json", func(t tabular.Table, w io.Writer) error { return json.Wrap(t).RenderTo(w) }},
		{"markdown", func(t tabular.Table, w io.Writer) error { return markdown.Wrap(t).RenderTo(w) }},
		{"html", func(t tabular.Table, w io.Writer) error { return html.Wrap(t).RenderTo(w) }},
		{"auto:utf8-light", func(t tabular.Table, w io.Writer) error { return auto.RenderTo(t, w, "utf8-light") }},
	}
	// one format for the whole batch in half of the cases (N renders of the same kind in flight), mixed otherwise
	same := -1
	if i%2 == 0 {
		same = (i / 2) % len(tos)
	}
	build := func(g int) tabular.Table {
		t := tabular.New()
		t.AddHeaders("k", "v")
		t.AddRowItems(fmt.Sprintf("goroutine %d", g), g)
		t.AddSeparator()
		t.AddRowItems("two\nlines", strings.Repeat("w", g%7))
		return t
	}
	pick := func(g int) int {
		if same >= 0 {
			return same
		}
		return g % len(tos)
	}
	desc := map[string]interface{}{"renders_in_flight_at_once": N, "formats": "mixed"}
	if same >= 0 {
		desc["formats"] = tos[same].name
	}
	c.Case = desc
	gate := &c16Gate{need: N, ch: make(chan struct{})}
	got := make([]string, N)
	gerr := make([]bool, N)
	var wg sync.WaitGroup
	for g := 0; g < N; g++ {
		wg.Add(1)
		go func(g int) {
			defer wg.Done()
			w := &c16GateWriter{g: gate}
			p, val, st := Guard(func() {
				t := build(g)
				gerr[g] = tos[pick(g)].to(t, w) != nil
			})
			if !w.arrived {
				w.arrived = true
				gate.arrive()
			}
			if p {
				c.Rec.ViolateStack("panic-with-many-renders-in-flight@"+PanicSite(st), fmt.Sprintf("%d renders of independent tables were in flight at once; goroutine %d (%s) panicked: %v", N, g, tos[pick(g)].name, val), desc, st)
			}
			got[g] = string(w.b)
		}(g)
	}
	wg.Wait()
	c.Rec.Eval(gen.Hash64("inflight", fmt.Sprint(N, same)), true)
	c.Rec.Count("batches_with_all_renders_in_flight_at_once", 1)
	c.Rec.Max("max:renders_in_flight_at_once", int64(N))
	for g := 0; g < N; g++ {
		var b bytes.Buffer
		rerr := tos[pick(g)].to(build(g), &b)
		c.Rec.Count("outputs_compared_with_sequential", 1)
		if got[g] != b.String() || gerr[g] != (rerr != nil) {
			c.Rec.Violate("concurrent-output-differs:in-flight:"+formatClass(tos[pick(g)].name), fmt.Sprintf("with %d renders in flight, goroutine %d (%s) wrote %q (error=%v); the same table rendered alone gives %q (error=%v)", N, g, tos[pick(g)].name, got[g], gerr[g], b.String(), rerr != nil), desc)
			return
		}
	}
}

// ---- long tables rendered at the same time

// c16Long: 24-48 goroutines each render a table of their own with 512-1030 rows ten times at the same time:
// whatever a renderer does differently for long tables (chunking, helpers, limits on helpers) it does here under
// contention.  Every output must equal the same table rendered alone.
func c16Long(c *Ctx, i int, r *gen.R) {
	G := []int{24, 32, 48}[i%3]
	desc := map[string]interface{}{"goroutines": G, "renders_per_goroutine": c16LongRounds, "case": i}
	c.Case = desc
	c.Rec.Eval(gen.Hash64("long", fmt.Sprint(i)), true)
	// in this (race-detector) process ...
	if msg, stack := c16LongWork(8, i, 4); msg != "" { // a small batch here (the detector watches), the full one in the child
		if stack != "" {
			c.Rec.ViolateStack("panic-in-concurrent-render@"+PanicSite(stack), msg, desc, stack)
		} else {
			c.Rec.Violate("concurrent-output-differs:long-table", msg, desc)
		}
		return
	}
	c.Rec.Count("batches_of_long_tables(race build)", 1)
	// ... and in a child built without the race detector, whose timing is that of a production binary: output
	// equality is a question about schedules, and the detector's slowdown closes windows that are open without it
	exe := os.Getenv("VERIF_PLAIN_EXE")
	if exe == "" {
		c.Rec.Count("plain_binary_unavailable(check started without run.sh)", 1)
		return
	}
	var out []byte
	var err error
	waitingForChild(func() {
		out, err = exec.Command(exe, "-aux", "c16long", strconv.Itoa(G), strconv.Itoa(i)).CombinedOutput()
	})
	txt := strings.TrimSpace(string(out))
	switch {
	case err != nil:
		c.Rec.Violate("long-tables:child-died", fmt.Sprintf("the child process rendering %d long tables concurrently died: %v; output %q", G, err, tail(txt, 3000)), desc)
	case strings.HasPrefix(txt, "BAD:"):
		c.Rec.Violate("concurrent-output-differs:long-table", txt+" [in a binary built without the race detector]", desc)
	case strings.HasSuffix(txt, "OK"):
		c.Rec.Count("batches_of_long_tables(plain build)", 1)
	default:
		c.Rec.Inconclusive("long-table child printed neither OK nor BAD: " + tail(txt, 500))
	}
}

const c16LongRounds = 10

func init() {
	auxModes["c16long"] = func(args []string) int {
		if len(args) < 2 {
			return 3
		}
		G, _ := strconv.Atoi(args[0])
		i, _ := strconv.Atoi(args[1])
		for rep := 0; rep < 3; rep++ {
			if msg, _ := c16LongWork(G, i+rep*1000, c16LongRounds); msg != "" {
				fmt.Println("BAD: " + msg)
				return 0
			}
		}
		fmt.Println("OK")
		return 0
	}
}

// c16LongWork runs one batch; it returns a description of the first difference (and the stack, for a panic).
func c16LongWork(G, salt, rounds int) (string, string) {
	decos := []string{"utf8-heavy", "ascii-simple", "utf8-light", "none", "utf8-double", "utf8-light-curved"}
	rowsOf := func(g int) int { return []int{512, 520, 600, 1030, 1500}[(g+salt)%5] }
	build := func(g int) *texttable.TextTable {
		t := texttable.New()
		t.AddHeaders("n", "text")
		for k := 0; k < rowsOf(g); k++ {
			if k%97 == 50 {
				t.AddSeparator()
				continue
			}
			t.AddRowItems(k, fmt.Sprintf("g%d row %d", g, k))
		}
		return t
	}
	// one wrapper per goroutine, switched through the decorations round by round; the last round is CSV
	render := func(t *texttable.TextTable, round int) (string, error) {
		if round == rounds-1 {
			return csv.Wrap(t).Render()
		}
		if _, err := t.SetDecorationNamed(decos[round%len(decos)]); err != nil {
			return "", err
		}
		return t.Render()
	}
	got := make([][]string, G)
	var wg sync.WaitGroup
	var mu sync.Mutex
	panicMsg, panicStack := "", ""
	start := make(chan struct{})
	for g := 0; g < G; g++ {
		wg.Add(1)
		go func(g int) {
			defer wg.Done()
			t := build(g)
			got[g] = make([]string, rounds)
			<-start
			for k := 0; k < rounds; k++ {
				if p, val, st := Guard(func() { got[g][k], _ = render(t, k) }); p {
					mu.Lock()
					panicMsg, panicStack = fmt.Sprintf("goroutine %d rendering its %d-row table (round %d) panicked: %v", g, rowsOf(g), k, val), st
					mu.Unlock()
				}
			}
		}(g)
	}
	close(start)
	wg.Wait()
	if panicMsg != "" {
		return panicMsg, panicStack
	}
	for g := 0; g < G; g++ {
		t := build(g)
		for k := 0; k < rounds; k++ {
			want, _ := render(t, k)
			if got[g][k] != want {
				return fmt.Sprintf("%d goroutines each rendering a long table of their own %d times: goroutine %d (%d rows), render %d produced %d bytes / %d lines, the same table rendered alone %d bytes / %d lines", G, rounds, g, rowsOf(g), k+1, len(got[g][k]), strings.Count(got[g][k], "\n"), len(want), strings.Count(want, "\n")), ""
			}
		}
	}
	return "", ""
}

func init() {
	register(&Prop{
		ID:     "C16",
		Level:  "exploration",
		Race:   true,
		Shards: raceShards,
		Rule: "built with -race; shards run at GOMAXPROCS = all cores, 2, 4, 1. One case = one barrier-released batch of G goroutines (G cycles through 2, 8, 16, 32, 64), each owning a random table spec (as in C10, with alignments and occasional size-declaring items) which it builds and renders in all 32 formats (csv, json, markdown, html twice through one wrapper with caption/generator/context, auto markdown, text under the six built-in decorations, auto utf8-double, text under a decoration of the goroutine's own completed by Populate() inside the goroutine, and json/csv/markdown/html/text through RenderTo into a writer that yields the processor on every Write - the caller's writer is the library's one suspension point -, and text/csv/json/markdown/html/auto text through RenderTo into a regular *os.File of its own and into a destination whose dynamic type rotates with the goroutine: buffers, builders, pipes, files opened for appending, a 16-byte bufio.Writer) in a goroutine-specific order - half of the goroutines on one table of their own for all renders (so that state accumulates on it), the others on a freshly built table per render -, with property traffic on its own table, column 0 and first cell before every render (three keys in rotating order, read back after the render and compared like the output); two thirds of the tables also take a row of by-value copies of up to 7 cells the parent prepared once per batch (values of common provenance: each table owns its copies), and the same cells as items; in the first 32 batches of a process every table also holds an item of a dynamic type the process has not seen before (size-declaring, with a String method that yields), so that all goroutines meet the type for the first time at once; a sixth of the tables hold an item the JSON encoder refuses, so that renders fail part-way during the batch; text three times and html twice through by-value copies of wrappers; while 2 background goroutines read RegisteredDecorationNames/Named/auto.ListStyles in a loop and, in every other batch, a third forces garbage collections. After the batch the same specs are built and rendered alone to obtain reference bytes (afterwards, so that grow-only process-wide state is first touched concurrently); 1/25 of the cells are 81-400 characters wide; every concurrent output must equal its reference. phase 1: N = 65, 70, 100, 130, 200 or 257 goroutines each render a table of their own (one format for the whole batch, or six formats mixed) into a writer whose first Write blocks until all N renders have got that far, so that N renders are in flight at the same instant; no panic, and every output equals the same table rendered alone. " +
			"distinct_nontrivial counts distinct interleaving signatures (global completion order of the renders by goroutine id). The race detector's log is parsed by the parent; every report with a tabular frame is a violation; a fatal runtime error in the child is a violation.",
		Assumptions: []string{
			"each goroutine owns its tables and wrappers; sharing one table or wrapper between goroutines is out of scope (documented as unsupported for HTMLTable with a generator context)",
			"the race detector sees only the accesses of the interleavings that happened in this run",
		},
		Phases: []Phase{
			{Name: "barrier-released batches of goroutines building and rendering their own tables", N: Fixed(24, 1200), Run: func(c *Ctx, i int, r *gen.R) { withProcs(c, func() { c16Run(c, i, r) }) }},
			{Name: "24-48 goroutines each rendering a table of 512-1500 rows of their own ten times (nine as text through one wrapper, once as CSV) at once, in this process and in a child built without the race detector", N: Fixed(2, 60), Run: func(c *Ctx, i int, r *gen.R) { c16Long(c, i, r) }}, // always on all processors: the point is overlap
			{Name: "pipelines: one render streamed through a pipe to a goroutine that renders tables of its own for every line it reads (5 x 5 formats, io.Pipe and os.Pipe), in a child built without the race detector", Exhaustive: true, N: Fixed(30, 50), Run: c16Pipeline},
			{Name: "65-257 renders of independent tables all in flight at the same instant (each blocked in its first Write until all are there)", N: Fixed(12, 240), Run: func(c *Ctx, i int, r *gen.R) { withProcs(c, func() { c16InFlight(c, i, r) }) }},
		},
	})
}
