package props

import (
	"bufio"
	"bytes"
	"fmt"
	"io"
	"os"
	"os/exec"
	"strconv"
	"strings"

	"go.pennock.tech/tabular"
	"go.pennock.tech/tabular/csv"
	"go.pennock.tech/tabular/html"
	"go.pennock.tech/tabular/json"
	"go.pennock.tech/tabular/markdown"
	"go.pennock.tech/tabular/texttable"

	"verifharness/internal/gen"
)

// C16, pipelines: two goroutines with tables, wrappers and destinations of their own, where the second CONSUMES what
// the first renders.  G1 streams its table into a pipe; G2 reads it line by line and renders a small table of its
// own for every line before it reads on.  G1 therefore sits in Write (its destination is not being read) while G2
// renders.  Nothing is shared between the two renders, so both finish and both outputs are what the tables give
// alone.  A render that waits for something another render holds never finishes: in a process with no other
// goroutines the Go runtime reports that ("all goroutines are asleep"), which is why this runs in the child built
// without the race detector (whose runtime cannot tell).

var c16PipeFormats = []struct {
	name string
	to   func(t tabular.Table, w io.Writer) error
}{
	{"csv", func(t tabular.Table, w io.Writer) error { return csv.Wrap(t).RenderTo(w) }},
	{"json", func(t tabular.Table, w io.Writer) error { return json.RenderTo(t, w) }},
	{"markdown", func(t tabular.Table, w io.Writer) error { return markdown.Wrap(t).RenderTo(w) }},
	{"html", func(t tabular.Table, w io.Writer) error { return html.Wrap(t).RenderTo(w) }},
	{"text", func(t tabular.Table, w io.Writer) error { return texttable.Wrap(t).RenderTo(w) }},
}

func c16PipeTable(rows, salt int) tabular.Table {
	t := tabular.New()
	t.AddHeaders("n", "text")
	for k := 0; k < rows; k++ {
		if k%7 == 5 {
			t.AddSeparator()
			continue
		}
		t.AddRowItems(k, fmt.Sprintf("row %d of table %d", k, salt))
	}
	return t
}

// c16PipeWork runs one pipeline and returns "" or a description of what went wrong.
func c16PipeWork(f1, f2, rows, kind int) string {
	up, down := c16PipeFormats[f1%len(c16PipeFormats)], c16PipeFormats[f2%len(c16PipeFormats)]
	var ref bytes.Buffer
	if err := up.to(c16PipeTable(rows, 1), &ref); err != nil {
		return "reference render failed: " + err.Error()
	}
	var small bytes.Buffer
	if err := down.to(c16PipeTable(2, 2), &small); err != nil {
		return "reference render failed: " + err.Error()
	}
	var rd io.ReadCloser
	var wr io.WriteCloser
	if kind%2 == 0 {
		rd, wr = io.Pipe()
	} else {
		pr, pw, err := os.Pipe()
		if err != nil {
			rd, wr = io.Pipe()
		} else {
			rd, wr = pr, pw
		}
	}
	var upErr error
	done := make(chan struct{})
	go func() {
		defer close(done)
		upErr = up.to(c16PipeTable(rows, 1), wr)
		wr.Close()
	}()
	var got bytes.Buffer
	bad := ""
	br := bufio.NewReader(rd)
	for {
		line, err := br.ReadString('\n')
		got.WriteString(line)
		if line != "" {
			var mine bytes.Buffer
			if e := down.to(c16PipeTable(2, 2), &mine); e != nil {
				bad = "the consumer's own render failed: " + e.Error()
			} else if mine.String() != small.String() {
				bad = fmt.Sprintf("the consumer's own %s render gave %q, alone it gives %q", down.name, mine.String(), small.String())
			}
		}
		if err != nil {
			break
		}
	}
	rd.Close()
	<-done
	if bad != "" {
		return bad
	}
	if upErr != nil {
		return "the producer's render failed: " + upErr.Error()
	}
	if got.String() != ref.String() {
		return fmt.Sprintf("the %s render consumed through the pipe is %q, alone it gives %q", up.name, got.String(), ref.String())
	}
	return ""
}

func init() {
	auxModes["c16pipe"] = func(args []string) int {
		if len(args) < 4 {
			return 3
		}
		a := make([]int, 4)
		for k := range a {
			a[k], _ = strconv.Atoi(args[k])
		}
		if msg := c16PipeWork(a[0], a[1], a[2], a[3]); msg != "" {
			fmt.Println("BAD: " + msg)
			return 0
		}
		fmt.Println("OK")
		return 0
	}
}

func c16Pipeline(c *Ctx, i int, r *gen.R) {
	n := len(c16PipeFormats)
	f1, f2 := i%n, (i/n)%n
	if i >= n*n {
		f2 = f1 // the interesting pairs once more, with other sizes
	}
	rows := []int{2, 3, 9, 40, 200}[(i/3)%5]
	kind := i / 2
	desc := map[string]interface{}{"producer_format": c16PipeFormats[f1].name, "consumer_format": c16PipeFormats[f2].name, "producer_rows": rows, "pipe": []string{"io.Pipe", "os.Pipe"}[kind%2]}
	c.Case = desc
	c.Rec.Eval(gen.Hash64("pipe", fmt.Sprint(f1, f2, rows, kind%2)), true)
	exe := os.Getenv("VERIF_PLAIN_EXE")
	if exe == "" {
		c.Rec.Count("plain_binary_unavailable(check started without run.sh)", 1)
		return
	}
	var out []byte
	var err error
	waitingForChild(func() {
		out, err = exec.Command(exe, "-aux", "c16pipe", strconv.Itoa(f1), strconv.Itoa(f2), strconv.Itoa(rows), strconv.Itoa(kind)).CombinedOutput()
	})
	txt := strings.TrimSpace(string(out))
	switch {
	case err != nil:
		key := "pipeline:child-died"
		if strings.Contains(txt, "all goroutines are asleep") {
			key = "pipeline:renders-wait-for-each-other"
		}
		c.Rec.Violate(key, fmt.Sprintf("a %s render streamed through a pipe to a goroutine that renders %s tables of its own while it reads: the process ended with %v; output %q", c16PipeFormats[f1].name, c16PipeFormats[f2].name, err, tail(txt, 2500)), desc)
	case strings.HasPrefix(txt, "BAD:"):
		c.Rec.Violate("pipeline:output-differs", txt, desc)
	case strings.HasSuffix(txt, "OK"):
		c.Rec.Count("pipelines_of_two_independent_renders_completed", 1)
	default:
		c.Rec.Inconclusive("pipeline child printed neither OK nor BAD: " + tail(txt, 500))
	}
}
