package props

import (
	"fmt"
	"io"
	"sort"
	"strings"

	"go.pennock.tech/tabular"
	"go.pennock.tech/tabular/csv"
	"go.pennock.tech/tabular/html"
	"go.pennock.tech/tabular/json"
	"go.pennock.tech/tabular/markdown"
	"go.pennock.tech/tabular/texttable"

	"verifharness/internal/gen"
)

// C13 - callbacks fire once per target, on the live object, in the documented order.
//
// Monitor: recording callbacks append (registration, target identity read
// inside the callback) to a log and set a unique property on the object they
// are handed; after every add operation and every render pass the window's
// log is compared with the events the statement makes mandatory, with the
// at-most-once rule, with the documented nesting order, and the properties
// are read back through the table.

const (
	c13Table = iota
	c13Column
	c13Row
	c13Cell
)

var c13OwnerNames = []string{"table", "column", "row", "cell"}

type c13Reg struct {
	id        int
	owner     int
	when      int // index into cbTimes
	target    int // index into cbTargets
	col       int // column owner: column index (0 = defaults column)
	row       int // row / cell owner: row spec index (0-based)
	cell      int // cell owner: cell index (0-based)
	early     bool
	done      bool
	accepted  bool
	regWindow int       // number of windows completed when the registration was made
	failing   bool      // the callback also returns an error from every invocation (that must not keep others from running)
	group     *c13Group // non-nil: the callback VALUE registered is shared with the other members of the group (all in one list)
}

// c13Group is one callback value registered once per member, all in the same list.  Two registrations are two
// registrations whatever the dynamic type of the value registered and however equal the two values are, so every
// walk over the list invokes the value once per member, in registration order: invocations are attributed to the
// members round-robin.
type c13Group struct {
	kind    int // 0 one pointer registered several times; 1 equal comparable struct values; 2 values of a field-less struct type
	s       *c13State
	members []*c13Reg // accepted registrations, in order
	n       int
	val     tabular.PropertyCallback
}

var c13GroupKindNames = []string{"the same pointer registered again", "equal comparable struct values", "values of a field-less struct type"}

func (gr *c13Group) UpdateProperties(o tabular.PropertyOwner) error {
	if len(gr.members) == 0 {
		return nil
	}
	m := gr.members[gr.n%len(gr.members)]
	gr.n++
	return gr.s.fire(m, o)
}

type c13GroupVal struct{ gr *c13Group }

func (v c13GroupVal) UpdateProperties(o tabular.PropertyOwner) error { return v.gr.UpdateProperties(o) }

// field-less callback types: all their values are equal, and they can only reach the recorder through package state
var (
	c13ZGroups [6]*c13Group
	c13ZNext   int
)

type c13Z0 struct{}
type c13Z1 struct{}
type c13Z2 struct{}
type c13Z3 struct{}
type c13Z4 struct{}
type c13Z5 struct{}

func (c13Z0) UpdateProperties(o tabular.PropertyOwner) error {
	return c13ZGroups[0].UpdateProperties(o)
}
func (c13Z1) UpdateProperties(o tabular.PropertyOwner) error {
	return c13ZGroups[1].UpdateProperties(o)
}
func (c13Z2) UpdateProperties(o tabular.PropertyOwner) error {
	return c13ZGroups[2].UpdateProperties(o)
}
func (c13Z3) UpdateProperties(o tabular.PropertyOwner) error {
	return c13ZGroups[3].UpdateProperties(o)
}
func (c13Z4) UpdateProperties(o tabular.PropertyOwner) error {
	return c13ZGroups[4].UpdateProperties(o)
}
func (c13Z5) UpdateProperties(o tabular.PropertyOwner) error {
	return c13ZGroups[5].UpdateProperties(o)
}

var c13ZVals = []tabular.PropertyCallback{c13Z0{}, c13Z1{}, c13Z2{}, c13Z3{}, c13Z4{}, c13Z5{}}

func (s *c13State) groupValue(gr *c13Group) tabular.PropertyCallback {
	if gr.val != nil {
		return gr.val
	}
	gr.s = s
	switch gr.kind {
	case 1:
		gr.val = c13GroupVal{gr}
	case 2:
		if c13ZNext < len(c13ZVals) {
			c13ZGroups[c13ZNext] = gr
			gr.val = c13ZVals[c13ZNext]
			c13ZNext++
			break
		}
		gr.kind = 0
		fallthrough
	default:
		gr.val = gr
	}
	return gr.val
}

func (g *c13Reg) String() string {
	s := fmt.Sprintf("#%d %s", g.id, c13OwnerNames[g.owner])
	switch g.owner {
	case c13Column:
		s += fmt.Sprintf("[%d]", g.col)
	case c13Row:
		s += fmt.Sprintf("[row %d]", g.row+1)
	case c13Cell:
		if g.row < 0 {
			s += fmt.Sprintf("[header cell %d]", g.cell+1)
		} else {
			s += fmt.Sprintf("[row %d cell %d]", g.row+1, g.cell+1)
		}
	}
	s += " " + cbTimeNames[g.when] + " " + cbTargetNames[g.target]
	if g.failing {
		s += " [returns an error every time]"
	}
	if g.group != nil {
		s += fmt.Sprintf(" [callback value shared with its twins: %s]", c13GroupKindNames[g.group.kind])
	}
	if g.early {
		s += " (registered as soon as the owner exists)"
	} else {
		s += " (registered after the table is built)"
	}
	return s
}

// c13Valid says whether the (owner kind, target) combination is supported.
func c13Valid(owner, target int) bool {
	switch owner {
	case c13Table, c13Row:
		return true
	case c13Column:
		return target == 0 || target == 1
	case c13Cell:
		return target == 0 || target == 1
	}
	return false
}

type c13RowSpec struct {
	sep  bool
	n    int
	mode int // 0 AddRowItems, 1 NewRow+Add...+AddRow, 2 AppendNewRow+Add...
}

type c13Shape struct {
	header   int // -1 none, else number of header cells
	headerAt int // 0: before the rows; 1: after the rows
	rows     []c13RowSpec
}

func (sh c13Shape) String() string {
	var b strings.Builder
	if sh.header >= 0 {
		fmt.Fprintf(&b, "H%d@%d ", sh.header, sh.headerAt)
	} else {
		b.WriteString("noheader ")
	}
	for _, r := range sh.rows {
		if r.sep {
			b.WriteString("- ")
		} else {
			fmt.Fprintf(&b, "%d%c ", r.n, "iab"[r.mode])
		}
	}
	return strings.TrimSpace(b.String())
}

type c13Event struct {
	seq     int
	reg     *c13Reg
	tgt     string // canonical target: T, C<k>, R<rho>, X<rho>.<i>, ?<...>
	live    bool   // pointer identity held inside the callback
	key     string
	obj     tabular.PropertyOwner
	typeStr string
}

type c13State struct {
	c        *Ctx
	t        *tabular.ATable
	shape    c13Shape
	regs     []*c13Reg
	rows     []*tabular.Row // per row spec; nil until created
	att      []bool         // attached?
	ncell    []int          // cells currently in the row
	hdrSet   bool
	built    bool
	events   []c13Event
	evSeq    int
	windows  int
	itemSalt int
	handles  int             // 0: every registration goes through the table's own method and names the table itself
	other    *tabular.ATable // another table, whose RegisterPropertyCallback method some registrations go through
	log      []string
	desc     map[string]interface{}
	// current window
	wKind string // "RowAdd", "AddRow", "AddHeaders", "AddSeparator", "Render"
	wRow  int
	wCell int
	bad   bool
}

// item is what cell k of row i holds: callbacks fire for a cell whatever it holds - nothing, the empty string, a
// typed nil pointer, a number, another cell - not only for cells with a text.
func (s *c13State) item(i, k int, text string) interface{} {
	switch (i*7 + k*3 + s.itemSalt) % 9 {
	case 0:
		return nil
	case 1:
		return ""
	case 2:
		return (*gen.NilSafe)(nil)
	case 3:
		return i*10 + k
	case 4:
		return tabular.NewCell(text)
	case 5:
		return []byte(nil)
	}
	return text
}

func (s *c13State) say(f string, a ...interface{}) { s.log = append(s.log, fmt.Sprintf(f, a...)) }

func (s *c13State) viol(key, msg string) {
	if s.bad {
		return
	}
	s.bad = true
	s.desc["history"] = s.log
	s.c.Rec.Violate(key, msg, s.desc)
}

// rho is the 1-based position of row spec index i among attached rows (spec order == attach order here)
func (s *c13State) rho(i int) int { return i + 1 }

func (s *c13State) identify(o tabular.PropertyOwner) (string, bool) {
	t := s.t
	switch x := o.(type) {
	case *tabular.ATable:
		return "T", x == t
	case *tabular.Row:
		for i, h := range s.rows {
			if h == x {
				return fmt.Sprintf("R%d", s.rho(i)), true
			}
		}
		if s.wKind == "AddRow" && s.rows[s.wRow] == nil {
			// row made by AddRowItems: first sight of its handle is here
			return fmt.Sprintf("R%d", s.rho(s.wRow)), true
		}
		if x.Location().Row == 0 && (s.hdrSet || s.wKind == "AddHeaders") {
			return "R0", true // the header row (no public handle to compare with)
		}
		return fmt.Sprintf("?row@%d", x.Location().Row), false
	case *tabular.Cell:
		loc := x.Location()
		// header cell?
		if hs := t.Headers(); loc.Row == 0 && loc.Column >= 1 && loc.Column <= len(hs) && &hs[loc.Column-1] == x {
			return fmt.Sprintf("X0.%d", loc.Column), true
		}
		for i, h := range s.rows {
			if h == nil {
				continue
			}
			cs := h.Cells()
			if loc.Column >= 1 && loc.Column <= len(cs) && &cs[loc.Column-1] == x {
				return fmt.Sprintf("X%d.%d", s.rho(i), loc.Column), true
			}
		}
		if s.wKind == "AddRow" && s.rows[s.wRow] == nil {
			// cells of a row made by AddRowItems: the row is already in the table when table/column callbacks run
			rows := t.AllRows()
			if len(rows) > 0 {
				cs := rows[len(rows)-1].Cells()
				if loc.Column >= 1 && loc.Column <= len(cs) && &cs[loc.Column-1] == x {
					return fmt.Sprintf("X%d.%d", s.rho(s.wRow), loc.Column), true
				}
			}
		}
		if s.wKind == "AddHeaders" && loc.Row == 0 {
			return fmt.Sprintf("X0.%d", loc.Column), true // header row under construction: not yet reachable
		}
		return fmt.Sprintf("?cell@%d.%d", loc.Row, loc.Column), false
	}
	// columns are of an unexported type: identify by comparing with the live column handles
	for k := 0; k <= t.NColumns(); k++ {
		if tabular.PropertyOwner(t.Column(k)) == o {
			return fmt.Sprintf("C%d", k), true
		}
	}
	ts := fmt.Sprintf("%T", o)
	if strings.HasSuffix(ts, ".column") {
		return "?column-not-live", false
	}
	return "?" + ts, false
}

func (s *c13State) callback(g *c13Reg) tabular.PropertyCallback {
	if g.group != nil {
		return s.groupValue(g.group)
	}
	return cbFunc(func(o tabular.PropertyOwner) error { return s.fire(g, o) })
}

func (s *c13State) fire(g *c13Reg, o tabular.PropertyOwner) error {
	{
		s.evSeq++
		tgt, live := s.identify(o)
		key := fmt.Sprintf("c13/%d/%d", g.id, s.evSeq)
		o.SetProperty(key, s.evSeq)
		s.events = append(s.events, c13Event{seq: s.evSeq, reg: g, tgt: tgt, live: live, key: key, obj: o, typeStr: fmt.Sprintf("%T", o)})
		s.c.Rec.Count("callback_events_observed", 1)
		if g.failing {
			s.c.Rec.Count("callback_invocations_that_returned_an_error", 1)
			return fmt.Errorf("callback %d fails on purpose (invocation %d)", g.id, s.evSeq)
		}
		return nil
	}
}

// flush performs every pending registration whose owner exists.
func (s *c13State) flush() {
	for _, g := range s.regs {
		if g.done {
			continue
		}
		if !g.early && !s.built {
			continue
		}
		var owner tabular.PropertyOwner
		switch g.owner {
		case c13Table:
			owner = s.t
		case c13Column:
			if g.col > s.t.NColumns() {
				continue
			}
			owner = s.t.Column(g.col)
		case c13Row:
			if g.row >= len(s.rows) || s.rows[g.row] == nil {
				continue
			}
			owner = s.rows[g.row]
		case c13Cell:
			if g.row < 0 {
				// a header cell, addressed through the live slice Headers() returns
				if !s.hdrSet || len(s.t.Headers()) <= g.cell {
					continue
				}
				owner = &s.t.Headers()[g.cell]
				break
			}
			if g.row >= len(s.rows) || s.rows[g.row] == nil || s.ncell[g.row] <= g.cell {
				continue
			}
			owner = &s.rows[g.row].Cells()[g.cell]
		}
		g.done = true
		g.regWindow = s.windows
		// which handle on the table the program uses is its own business: the method may be called on the table, on a
		// wrapper around it (the method is promoted) or - the callback lists live in the owner - on another table
		// altogether; and where the owner is the table, a wrapper around the table names it just as well
		var registrar tabular.Table = s.t
		via := ""
		if s.handles != 0 {
			h := g.id*7 + s.handles*3 + g.when + g.target*5
			wrapOwner := g.owner == c13Table && (h/3)%3 != 0
			switch {
			case h%3 == 1 && !wrapOwner:
				if s.other == nil {
					s.other = tabular.New()
					s.other.AddHeaders("another", "table")
					s.other.AddRowItems("with", "rows")
				}
				registrar, via = s.other, " [through the RegisterPropertyCallback method of ANOTHER table]"
			case h%3 == 2:
				w := c10Wrappers[(h/9)%len(c10Wrappers)]
				registrar, via = w.f(s.t), " [through the method of "+w.name+" around the table]"
			}
			if wrapOwner {
				w := c10Wrappers[(h/5)%len(c10Wrappers)]
				o := w.f(s.t)
				via += " [owner named: " + w.name + " around the table]"
				if (h/7)%3 == 0 {
					w2 := c10Wrappers[(h/11)%len(c10Wrappers)]
					o = w2.f(o)
					via += " [inside " + w2.name + "]"
				}
				owner = o
			}
			if via != "" {
				s.c.Rec.Count("registrations_made_through_another_handle_on_the_table", 1)
			}
		}
		err := registrar.RegisterPropertyCallback(owner, cbTimes[g.when], cbTargets[g.target], s.callback(g))
		s.c.Rec.Count("registrations", 1)
		want := c13Valid(g.owner, g.target)
		g.accepted = err == nil
		if err == nil && g.group != nil {
			g.group.members = append(g.group.members, g)
			s.c.Rec.Count("registrations_sharing_their_callback_value:"+c13GroupKindNames[g.group.kind], 1)
		}
		s.say("register %s%s -> err=%v", g, via, err)
		if want && err != nil {
			s.viol("registration-refused:"+c13OwnerNames[g.owner]+"/"+cbTargetNames[g.target], fmt.Sprintf("supported registration %s was refused: %v", g, err))
		}
		if !want && err == nil {
			s.viol("registration-accepted:"+c13OwnerNames[g.owner]+"/"+cbTargetNames[g.target], fmt.Sprintf("unsupported registration %s returned nil", g))
		}
	}
}

// window runs one operation and analyses the events it produced.
func (s *c13State) window(kind string, row, cell int, what string, f func()) {
	s.wKind, s.wRow, s.wCell = kind, row, cell
	start := len(s.events)
	s.say("%s", what)
	f()
	s.analyze(kind, row, cell, s.events[start:], what)
	s.windows++
	s.wKind = ""
}

// allowed says whether a registration may legitimately be invoked on tgt.
func (s *c13State) allowed(g *c13Reg, tgt string) bool {
	switch g.owner {
	case c13Table:
		switch g.target {
		case 0:
			return tgt == "T"
		case 1:
			return tgt[0] == 'X'
		case 2:
			return tgt[0] == 'R'
		}
	case c13Column:
		if g.target == 0 {
			return tgt == fmt.Sprintf("C%d", g.col)
		}
		return tgt[0] == 'X' && strings.HasSuffix(tgt, fmt.Sprintf(".%d", g.col))
	case c13Row:
		if g.target == 1 {
			return strings.HasPrefix(tgt, fmt.Sprintf("X%d.", s.rho(g.row)))
		}
		return tgt == fmt.Sprintf("R%d", s.rho(g.row))
	case c13Cell:
		if g.row < 0 {
			return tgt == fmt.Sprintf("X0.%d", g.cell+1)
		}
		return tgt == fmt.Sprintf("X%d.%d", s.rho(g.row), g.cell+1)
	}
	return false
}

// cellsNow lists the canonical ids of all cells reachable in the table right now, in traversal order.
func (s *c13State) allCells(includeHeader bool) []string {
	var out []string
	if includeHeader && s.hdrSet {
		for i := range s.t.Headers() {
			out = append(out, fmt.Sprintf("X0.%d", i+1))
		}
	}
	for i := range s.rows {
		if s.rows[i] != nil && s.att[i] && !s.shape.rows[i].sep {
			for k := 0; k < s.ncell[i]; k++ {
				out = append(out, fmt.Sprintf("X%d.%d", s.rho(i), k+1))
			}
		}
	}
	return out
}

// mandatory returns the targets on which registration g must be invoked exactly once in this window.
func (s *c13State) mandatory(g *c13Reg, kind string, row, cell int) []string {
	var out []string
	switch kind {
	case "RowAdd":
		if g.owner == c13Row && g.row == row && g.target == 1 && g.when == 0 {
			out = append(out, fmt.Sprintf("X%d.%d", s.rho(row), cell+1))
		}
	case "AddRow":
		if g.when != 0 {
			return nil
		}
		switch {
		case g.owner == c13Table && g.target == 2:
			out = append(out, fmt.Sprintf("R%d", s.rho(row)))
		case g.owner == c13Table && g.target == 1:
			for k := 0; k < s.ncell[row]; k++ {
				out = append(out, fmt.Sprintf("X%d.%d", s.rho(row), k+1))
			}
		case g.owner == c13Column && g.target == 1 && g.col >= 1:
			if s.ncell[row] >= g.col {
				out = append(out, fmt.Sprintf("X%d.%d", s.rho(row), g.col))
			}
		}
	case "Render":
		switch g.owner {
		case c13Table:
			if g.target == 0 && (g.when == 1 || g.when == 3) {
				out = append(out, "T")
			}
			if g.target == 1 && g.when >= 1 {
				out = s.allCells(true)
			}
		case c13Column:
			if g.target == 0 && (g.when == 1 || g.when == 3) {
				out = append(out, fmt.Sprintf("C%d", g.col))
			}
			if g.target == 1 && g.col >= 1 && (g.when == 1 || g.when == 3) {
				for i := range s.rows {
					if s.rows[i] != nil && s.att[i] && !s.shape.rows[i].sep && s.ncell[i] >= g.col {
						out = append(out, fmt.Sprintf("X%d.%d", s.rho(i), g.col))
					}
				}
			}
		case c13Row:
			if !s.att[g.row] {
				return nil
			}
			if g.target != 1 && (g.when == 1 || g.when == 3) {
				out = append(out, fmt.Sprintf("R%d", s.rho(g.row)))
			}
			if g.target == 1 && (g.when == 1 || g.when == 3) {
				for k := 0; k < s.ncell[g.row]; k++ {
					out = append(out, fmt.Sprintf("X%d.%d", s.rho(g.row), k+1))
				}
			}
		case c13Cell:
			if g.row < 0 {
				if g.when == 2 && s.hdrSet {
					out = append(out, fmt.Sprintf("X0.%d", g.cell+1))
				}
			} else if s.att[g.row] && g.when == 2 {
				out = append(out, fmt.Sprintf("X%d.%d", s.rho(g.row), g.cell+1))
			}
		}
	}
	return out
}

// slot gives the position of a listed render-time event in the documented nesting order.
func (s *c13State) slot(g *c13Reg, tgt string) (int, bool) {
	const big = 1000
	last := (len(s.rows) + 2) * big
	var rho, i int
	switch tgt[0] {
	case 'T':
		if g.owner == c13Table && g.target == 0 {
			if g.when == 1 {
				return 0, true
			}
			if g.when == 3 {
				return last + 2, true
			}
		}
		return 0, false
	case 'C':
		if g.owner == c13Column && g.target == 0 {
			if g.when == 1 {
				return 1, true
			}
			if g.when == 3 {
				return last + 1, true
			}
		}
		return 0, false
	case 'R':
		fmt.Sscanf(tgt, "R%d", &rho)
		if g.owner == c13Row && g.target != 1 {
			if g.when == 1 {
				return 2 + rho*big, true
			}
			if g.when == 3 {
				return 2 + rho*big + big - 1, true
			}
		}
		return 0, false
	case 'X':
		fmt.Sscanf(tgt, "X%d.%d", &rho, &i)
		base := 2 + rho*big + 1 + (i-1)*8
		switch {
		case g.owner == c13Table && g.target == 1 && g.when == 1:
			return base + 0, true
		case g.owner == c13Column && g.target == 1 && g.when == 1:
			return base + 1, true
		case g.owner == c13Row && g.target == 1 && g.when == 1:
			return base + 2, true
		case g.owner == c13Table && g.target == 1 && g.when == 2:
			return base + 3, true
		case g.owner == c13Cell && g.when == 2:
			return base + 4, true
		case g.owner == c13Row && g.target == 1 && g.when == 3:
			return base + 5, true
		case g.owner == c13Column && g.target == 1 && g.when == 3:
			return base + 6, true
		case g.owner == c13Table && g.target == 1 && g.when == 3:
			return base + 7, true
		}
	}
	return 0, false
}

func (s *c13State) analyze(kind string, row, cell int, evs []c13Event, what string) {
	if s.bad {
		return
	}
	s.c.Rec.Count("windows_analysed", 1)
	count := map[string]int{}
	for _, e := range evs {
		k := fmt.Sprintf("%d|%s", e.reg.id, e.tgt)
		count[k]++
		cls := c13OwnerNames[e.reg.owner] + "/" + cbTimeNames[e.reg.when] + "/" + cbTargetNames[e.reg.target]
		if !e.live {
			s.viol("not-live-object:"+cls, fmt.Sprintf("during %q, callback %s was handed %s (%s), which is not a live object of the table", what, e.reg, e.tgt, e.typeStr))
			return
		}
		if !s.allowed(e.reg, e.tgt) {
			s.viol("wrong-target:"+cls, fmt.Sprintf("during %q, callback %s was invoked on %s", what, e.reg, e.tgt))
			return
		}
		if count[k] > 1 {
			s.viol("repeated:"+cls, fmt.Sprintf("during %q, callback %s was invoked %d times on %s", what, e.reg, count[k], e.tgt))
			return
		}
		// time must match the kind of window
		if (kind == "Render") != (e.reg.when != 0) {
			s.viol("wrong-time:"+cls, fmt.Sprintf("during %q, callback %s (time %s) was invoked", what, e.reg, cbTimeNames[e.reg.when]))
			return
		}
	}
	for _, g := range s.regs {
		if !g.done || !g.accepted || g.regWindow > s.windows {
			continue
		}
		cls := c13OwnerNames[g.owner] + "/" + cbTimeNames[g.when] + "/" + cbTargetNames[g.target]
		for _, tgt := range s.mandatory(g, kind, row, cell) {
			s.c.Rec.Count("mandatory_events_expected", 1)
			if count[fmt.Sprintf("%d|%s", g.id, tgt)] != 1 {
				s.viol("missing:"+cls, fmt.Sprintf("during %q, callback %s was invoked %d times on %s; exactly once is required", what, g, count[fmt.Sprintf("%d|%s", g.id, tgt)], tgt))
				return
			}
		}
	}
	if kind == "Render" {
		prev, prevDesc := -1, ""
		for _, e := range evs {
			sl, ok := s.slot(e.reg, e.tgt)
			if !ok {
				continue
			}
			s.c.Rec.Count("ordered_events_checked", 1)
			if sl < prev {
				cls := c13OwnerNames[e.reg.owner] + "/" + cbTimeNames[e.reg.when] + "/" + cbTargetNames[e.reg.target]
				s.viol("order:"+cls, fmt.Sprintf("during %q, callback %s on %s ran after %s, against the documented nesting order", what, e.reg, e.tgt, prevDesc))
				return
			}
			prev, prevDesc = sl, fmt.Sprintf("%s on %s", e.reg, e.tgt)
		}
	}
	// liveness: what the callback set must be visible through the table afterwards
	for _, e := range evs {
		var via tabular.PropertyOwner
		path := ""
		var rho, i int
		switch e.tgt[0] {
		case 'T':
			via, path = s.t, "t"
		case 'C':
			fmt.Sscanf(e.tgt, "C%d", &i)
			via, path = s.t.Column(i), fmt.Sprintf("t.Column(%d)", i)
		case 'R':
			fmt.Sscanf(e.tgt, "R%d", &rho)
			if rho == 0 {
				continue
			}
			if s.att[rho-1] {
				via, path = s.t.AllRows()[rho-1], fmt.Sprintf("t.AllRows()[%d]", rho-1)
			} else {
				via, path = s.rows[rho-1], "the unattached row handle"
			}
		case 'X':
			fmt.Sscanf(e.tgt, "X%d.%d", &rho, &i)
			switch {
			case rho == 0:
				hs := s.t.Headers()
				if i > len(hs) {
					continue
				}
				via, path = &hs[i-1], fmt.Sprintf("t.Headers()[%d]", i-1)
			case s.att[rho-1]:
				p, err := s.t.CellAt(tabular.CellLocation{Row: rho, Column: i})
				if err != nil {
					s.viol("liveness:cell-unreachable", fmt.Sprintf("after %q: CellAt(%d,%d) fails: %v", what, rho, i, err))
					return
				}
				via, path = p, fmt.Sprintf("t.CellAt(%d,%d)", rho, i)
			default:
				via, path = &s.rows[rho-1].Cells()[i-1], "the unattached row's Cells()"
			}
		}
		s.c.Rec.Count("liveness_readbacks", 1)
		if got := via.GetProperty(e.key); got != interface{}(e.seq) {
			cls := c13OwnerNames[e.reg.owner] + "/" + cbTimeNames[e.reg.when] + "/" + cbTargetNames[e.reg.target]
			s.viol("liveness:"+cls, fmt.Sprintf("after %q: the property callback %s set on %s is not visible through %s (got %v): the callback was handed a copy", what, e.reg, e.tgt, path, got))
			return
		}
	}
}

func (s *c13State) build() {
	t := s.t
	sh := s.shape
	hdr := func() {
		if sh.header < 0 {
			return
		}
		items := make([]interface{}, sh.header)
		for i := range items {
			items[i] = s.item(-1, i, fmt.Sprintf("h%d", i+1))
		}
		s.window("AddHeaders", -1, -1, fmt.Sprintf("t.AddHeaders(%d items)", sh.header), func() { t.AddHeaders(items...) })
		s.hdrSet = true
		s.flush()
	}
	s.flush()
	if sh.headerAt == 0 {
		hdr()
	}
	for i, rs := range sh.rows {
		i := i
		switch {
		case rs.sep:
			s.window("AddSeparator", i, -1, "t.AddSeparator()", func() {
				t.AddSeparator()
				rows := t.AllRows()
				s.rows[i], s.att[i] = rows[len(rows)-1], true
			})
		case rs.mode == 0:
			items := make([]interface{}, rs.n)
			for k := range items {
				items[k] = s.item(i, k, fmt.Sprintf("r%dc%d", i+1, k+1))
			}
			s.ncell[i] = rs.n
			s.window("AddRow", i, -1, fmt.Sprintf("t.AddRowItems(%d items)", rs.n), func() {
				t.AddRowItems(items...)
				rows := t.AllRows()
				s.rows[i], s.att[i] = rows[len(rows)-1], true
			})
		case rs.mode == 1:
			r := tabular.NewRow()
			s.rows[i] = r
			s.say("r%d := NewRow()", i+1)
			s.flush()
			for k := 0; k < rs.n; k++ {
				k := k
				s.window("RowAdd", i, k, fmt.Sprintf("r%d.Add(cell %d)  [row not attached]", i+1, k+1), func() { r.Add(tabular.NewCell(s.item(i, k, fmt.Sprintf("r%dc%d", i+1, k+1)))); s.ncell[i] = k + 1 })
				s.flush()
			}
			s.window("AddRow", i, -1, fmt.Sprintf("t.AddRow(r%d)", i+1), func() { t.AddRow(r); s.att[i] = true })
		case rs.mode == 2:
			var r *tabular.Row
			s.window("AddRow", i, -1, fmt.Sprintf("r%d := t.AppendNewRow()", i+1), func() { r = t.AppendNewRow(); s.rows[i] = r; s.att[i] = true })
			s.flush()
			for k := 0; k < rs.n; k++ {
				k := k
				s.window("RowAdd", i, k, fmt.Sprintf("r%d.Add(cell %d)  [row already attached]", i+1, k+1), func() { r.Add(tabular.NewCell(s.item(i, k, fmt.Sprintf("r%dc%d", i+1, k+1)))); s.ncell[i] = k + 1 })
				s.flush()
			}
		}
		s.flush()
	}
	if sh.headerAt != 0 {
		hdr()
	}
	s.built = true
	s.flush()
}

var c13Triggers = []struct {
	name string
	f    func(t tabular.Table)
}{
	{"t.InvokeRenderCallbacks()", func(t tabular.Table) { t.InvokeRenderCallbacks() }},
	{"csv.Wrap(t).RenderTo", func(t tabular.Table) { csv.Wrap(t).RenderTo(io.Discard) }},
	{"html.Wrap(t).RenderTo", func(t tabular.Table) { html.Wrap(t).RenderTo(io.Discard) }},
	{"json.Wrap(t).RenderTo", func(t tabular.Table) { json.Wrap(t).RenderTo(io.Discard) }},
	{"markdown.Wrap(t).RenderTo", func(t tabular.Table) { markdown.Wrap(t).RenderTo(io.Discard) }},
	{"texttable.Wrap(t).RenderTo", func(t tabular.Table) { texttable.Wrap(t).RenderTo(io.Discard) }},
}

func c13RunCase(c *Ctx, shape c13Shape, regs []*c13Reg, triggers []int, sample bool) {
	s := &c13State{c: c, t: tabular.New(), shape: shape, regs: regs, desc: map[string]interface{}{}}
	c13ZNext = 0
	s.itemSalt = int(gen.Hash64(shape.String(), fmt.Sprint(len(regs), triggers)) % 9)
	if len(regs) > 0 {
		if hs := int(gen.Hash64("handles", shape.String(), fmt.Sprint(len(regs), triggers, regs[0].id*31+regs[len(regs)-1].when)) % 5); hs >= 2 {
			s.handles = hs
		}
	}
	s.rows = make([]*tabular.Row, len(shape.rows))
	s.att = make([]bool, len(shape.rows))
	s.ncell = make([]int, len(shape.rows))
	var rs []string
	for _, g := range regs {
		rs = append(rs, g.String())
	}
	s.desc["shape"] = shape.String()
	s.desc["registrations"] = rs
	c.Case = s.desc
	s.build()
	for _, tr := range triggers {
		if s.bad {
			break
		}
		trg := c13Triggers[tr]
		if s.itemSalt%2 == 0 {
			// every cell is asked to re-read its item first (what a program does after mutating items): registrations
			// belong to the cell, not to what it last read
			s.say("Update() on every header and body cell")
			hs := s.t.Headers()
			for k := range hs {
				(&hs[k]).Update()
			}
			for _, row := range s.t.AllRows() {
				cs := row.Cells()
				for k := range cs {
					(&cs[k]).Update()
				}
			}
			c.Rec.Count("render_passes_preceded_by_Update_on_every_cell", 1)
		}
		s.window("Render", -1, -1, "render pass via "+trg.name, func() {
			if p, _, _ := Guard(func() { trg.f(s.t) }); p {
				c.Rec.Count("render_panics_ignored_here(C09)", 1)
			}
		})
	}
	// registrations whose owner never came to exist are not counted
	if sample && c.Rec.WantSample() && len(s.events) > 0 {
		var tr []string
		for _, e := range s.events {
			tr = append(tr, fmt.Sprintf("#%d->%s", e.reg.id, e.tgt))
			if len(tr) >= 40 {
				break
			}
		}
		c.Rec.Sample(map[string]interface{}{"shape": shape.String(), "registrations": rs, "trace_prefix": strings.Join(tr, " ")})
	}
	if !s.bad {
		c.Rec.Count("cases_held", 1)
	}
}

// representative shapes for the exhaustive phases
var c13Shapes = []c13Shape{
	{header: 2, rows: []c13RowSpec{{n: 2, mode: 0}}},
	{header: 3, rows: []c13RowSpec{{n: 3, mode: 1}, {sep: true}, {n: 1, mode: 0}, {n: 0, mode: 0}}},
	{header: -1, rows: []c13RowSpec{{n: 2, mode: 1}, {n: 2, mode: 2}}},
	{header: 2, headerAt: 1, rows: []c13RowSpec{{n: 1, mode: 2}, {n: 3, mode: 1}, {sep: true}}},
	{header: 1, rows: []c13RowSpec{{sep: true}, {n: 0, mode: 1}, {n: 2, mode: 1}}},
	{header: 3, rows: []c13RowSpec{{n: 3, mode: 2}, {n: 3, mode: 0}, {n: 3, mode: 1}}},
	{header: -1, rows: []c13RowSpec{{n: 1, mode: 0}}},
	{header: 0, rows: []c13RowSpec{{n: 2, mode: 1}, {n: 1, mode: 1}}},
	{header: 2, rows: nil},
	{header: -1, rows: []c13RowSpec{{n: 3, mode: 0}, {n: 2, mode: 0}, {n: 1, mode: 0}}},
	{header: 2, rows: []c13RowSpec{{n: 2, mode: 1}, {n: 2, mode: 1}, {n: 2, mode: 1}}},
	{header: 3, headerAt: 1, rows: []c13RowSpec{{n: 0, mode: 2}, {sep: true}, {sep: true}, {n: 3, mode: 1}}},
}

// c13Combo builds registration number k (0..47) with an owner instance chosen to exist in the shape if possible.
func c13Combo(id, k int, sh c13Shape, early bool, pick int) *c13Reg {
	g := &c13Reg{id: id, owner: k / 12, when: (k / 3) % 4, target: k % 3, early: early}
	// owner instance
	var cellRows []int
	for i, r := range sh.rows {
		if !r.sep && r.n > 0 {
			cellRows = append(cellRows, i)
		}
	}
	var anyRows []int
	for i, r := range sh.rows {
		if !r.sep {
			anyRows = append(anyRows, i)
		}
	}
	switch g.owner {
	case c13Column:
		maxc := sh.header
		for _, r := range sh.rows {
			if !r.sep && r.n > maxc {
				maxc = r.n
			}
		}
		if maxc < 0 {
			maxc = 0
		}
		g.col = pick % (maxc + 1)
	case c13Row:
		if len(anyRows) > 0 {
			g.row = anyRows[pick%len(anyRows)]
		}
	case c13Cell:
		if sh.header > 0 && (len(cellRows) == 0 || pick%3 == 2) {
			g.row = -1
			g.cell = (pick / 7) % sh.header
		} else if len(cellRows) > 0 {
			g.row = cellRows[pick%len(cellRows)]
			g.cell = (pick / 7) % sh.rows[g.row].n
		}
	}
	return g
}

func c13Singles(c *Ctx, i int, r *gen.R) {
	k := i % 48
	si := (i / 48) % len(c13Shapes)
	early := (i/48/len(c13Shapes))%2 == 0
	pick := i / 48 / len(c13Shapes) / 2 // 0..2: which owner instance
	sh := c13Shapes[si]
	g := c13Combo(1, k, sh, early, pick+si)
	c.Rec.Eval(gen.Hash64("single", fmt.Sprint(k, si, early, pick)), true)
	c13RunCase(c, sh, []*c13Reg{g}, []int{0, 1 + (i % 5)}, i%97 == 0)
}

func c13Pairs(c *Ctx, i int, r *gen.R) {
	a, b := i%48, (i/48)%48
	si := (i / 48 / 48) % 3
	sh := c13Shapes[[]int{1, 3, 5}[si]]
	g1 := c13Combo(1, a, sh, true, i)
	g2 := c13Combo(2, b, sh, i%2 == 0, i/3)
	if a == b {
		// the same list twice: same owner instance, the first registered callback fails
		if k := (a + si) % 4; k > 0 {
			g1.group = &c13Group{kind: k - 1} // the two registrations hand over the same / an equal callback value
		}
		dup := *g1
		dup.id = 2
		g2 = &dup
		g1.failing = true
	}
	c.Rec.Eval(gen.Hash64("pair", fmt.Sprint(a, b, si)), true)
	c13RunCase(c, sh, []*c13Reg{g1, g2}, []int{0, 5}, i%997 == 0)
}

func c13RandomShape(r *gen.R) c13Shape {
	sh := c13Shape{header: -1}
	if r.Chance(2, 3) {
		sh.header = r.Range(0, 3)
		sh.headerAt = r.Intn(2)
	}
	n := r.Range(0, 3)
	for i := 0; i < n; i++ {
		if r.Chance(1, 5) {
			sh.rows = append(sh.rows, c13RowSpec{sep: true})
		} else {
			sh.rows = append(sh.rows, c13RowSpec{n: r.Range(0, 3), mode: r.Intn(3)})
		}
	}
	return sh
}

func c13Random(c *Ctx, i int, r *gen.R) {
	sh := c13RandomShape(r)
	if r.Chance(1, 8) {
		// larger
		for k := 0; k < 3; k++ {
			sh.rows = append(sh.rows, c13RowSpec{n: r.Range(0, 5), mode: r.Intn(3)})
		}
	}
	n := r.Range(1, 4)
	if r.Chance(1, 10) {
		n = r.Range(5, 12)
	}
	regs := make([]*c13Reg, n)
	var sig []int
	for k := range regs {
		combo := r.Intn(48)
		regs[k] = c13Combo(k+1, combo, sh, r.Bool(), r.Intn(1000))
		if k > 0 && r.Chance(1, 3) {
			// a second registration in the very same list (same owner, time and target) as an earlier one
			orig := regs[r.Intn(k)]
			if orig.group == nil && r.Chance(2, 3) {
				orig.group = &c13Group{kind: r.Intn(3)}
			}
			dup := *orig
			dup.id = k + 1
			dup.done, dup.accepted = false, false
			regs[k] = &dup
			combo = dup.owner*12 + dup.when*3 + dup.target
		}
		regs[k].failing = r.Chance(1, 4)
		if regs[k].failing {
			combo += 100
		}
		sig = append(sig, combo)
	}
	np := r.Range(1, 3)
	tr := make([]int, np)
	for k := range tr {
		tr[k] = r.Intn(len(c13Triggers))
	}
	sort.Ints(sig)
	c.Rec.Eval(gen.Hash64("rnd", sh.String(), fmt.Sprint(sig), fmt.Sprint(tr)), true)
	c13RunCase(c, sh, regs, tr, true)
}

// c13Refusals: out-of-range times/targets and foreign owner types must be refused.
type c13ForeignOwner struct{ m map[interface{}]interface{} }

func (f *c13ForeignOwner) SetProperty(k, v interface{}) error    { f.m[k] = v; return nil }
func (f *c13ForeignOwner) GetProperty(k interface{}) interface{} { return f.m[k] }

func c13Refusals(c *Ctx, i int, r *gen.R) {
	t := tabular.New()
	t.AddHeaders("a", "b")
	t.AddRowItems("x", "y")
	row := t.AllRows()[0]
	cell, _ := t.CellAt(tabular.CellLocation{Row: 1, Column: 1})
	owners := []tabular.PropertyOwner{t, t.Column(0), t.Column(1), row, cell}
	ownerNames := []string{"table", "column 0", "column 1", "row", "cell"}
	noop := cbFunc(func(tabular.PropertyOwner) error { return nil })
	oi := i % len(owners)
	badTimes := sliceOf(cbTimes[3]+1, cbTimes[3]+5, cbTimes[0]-1, cbTimes[0]-7)
	badTargets := sliceOf(cbTargets[2]+1, cbTargets[2]+3, cbTargets[0]-1)
	desc := map[string]interface{}{"owner": ownerNames[oi]}
	c.Case = desc
	c.Rec.Eval(gen.Hash64("refusal", ownerNames[oi]), true)
	for wi, w := range badTimes {
		for ti := range cbTargets {
			err := t.RegisterPropertyCallback(owners[oi], w, cbTargets[ti], noop)
			c.Rec.Count("refusal_probes", 1)
			if err == nil {
				c.Rec.Violate("registration-accepted:out-of-range-time", fmt.Sprintf("registering on the %s with out-of-range time #%d (value %d) and target %s returned nil", ownerNames[oi], wi, int(w), cbTargetNames[ti]), desc)
				return
			}
		}
	}
	for ti, tg := range badTargets {
		for wi := range cbTimes {
			err := t.RegisterPropertyCallback(owners[oi], cbTimes[wi], tg, noop)
			c.Rec.Count("refusal_probes", 1)
			if err == nil {
				c.Rec.Violate("registration-accepted:out-of-range-target", fmt.Sprintf("registering on the %s with time %s and out-of-range target #%d (value %d) returned nil", ownerNames[oi], cbTimeNames[wi], ti, int(tg)), desc)
				return
			}
		}
	}
	foreign := &c13ForeignOwner{m: map[interface{}]interface{}{}}
	for wi := range cbTimes {
		for ti := range cbTargets {
			err := t.RegisterPropertyCallback(foreign, cbTimes[wi], cbTargets[ti], noop)
			c.Rec.Count("refusal_probes", 1)
			if err == nil {
				c.Rec.Violate("registration-accepted:foreign-owner-type", fmt.Sprintf("registering on an owner of a type unknown to the library (%T) with %s %s returned nil", foreign, cbTimeNames[wi], cbTargetNames[ti]), desc)
				return
			}
		}
	}
	// nothing registered above may ever fire, and the table must still render
	t.InvokeRenderCallbacks()
}

func init() {
	register(&Prop{
		ID:    "C13",
		Level: "exploration",
		Rule: "phase 0 (exhaustive): each of the 48 (owner kind x time x target) registrations singly x 12 representative table shapes (header none/0/1/2/3 cells set before or after the rows; rows of 0-3 cells built by AddRowItems, NewRow+Add+AddRow or AppendNewRow+Add; separators) x {registered as soon as the owner exists, registered after the build} x 3 owner instances (cell owners include header cells addressed through Headers()), followed by an InvokeRenderCallbacks pass and one renderer pass; " +
			"phase 1 (exhaustive): out-of-range times/targets and a foreign owner type on every owner; phase 2: random sets of 1-12 registrations (a third of them a second registration in the same list as an earlier one, a quarter of them returning an error from every invocation) on random shapes with 1-3 passes through random triggers; phase 3 (thorough, exhaustive): all 48x48 pairs on 3 shapes. " +
			"Every add operation and every render pass is one window: mandatory events exactly once, every event at most once per (registration,target), allowed targets only, add/render time matching the window, documented nesting order, and read-back through the table of a property set inside the callback. " +
			"phase 4: a cell value that already carries 0-4 registrations is added at 1-3 places (separate rows or twice in one row), live cells get further registrations, live cells are copied by value and added again, the caller's variable gets registrations after the fact; a registration must fire exactly once per pass on the live cell it was made on and on every by-value copy of a carrier (a cell value registered before it was added carries its callbacks), and never on any other cell. " +
			"Distinct = distinct (shape, registration multiset, triggers) resp. distinct copy histories; all cases are non-trivial.",
		Assumptions: []string{
			"events the statement does not list (cell callbacks registered on column 0, column-level cell callbacks on header cells, add-time callbacks at AddHeaders, table/column cell add-time callbacks for cells added to an already attached row, row-itself callbacks at add time, registrations with no documented firing point) are only checked for at-most-once, allowed target and liveness",
			"callbacks sharing a slot of the nesting order may run in any order within it",
			"the header row has no public handle, so properties set on it by a callback are not read back",
		},
		Phases: []Phase{
			{Name: "48 single registrations x 12 shapes x early/late x 3 owner instances", Exhaustive: true, N: Fixed(48*12*2*3, 48*12*2*3), Run: c13Singles},
			{Name: "refusal of out-of-range times/targets and foreign owner types on 5 owners", Exhaustive: true, N: Fixed(5, 5), Run: c13Refusals},
			{Name: "random registration sets on random shapes", N: Fixed(4000, 2000000), Run: c13Random},
			{Name: "all 48x48 registration pairs x 3 shapes (thorough only)", Exhaustive: true, N: Fixed(0, 48*48*3), Run: c13Pairs},
			{Name: "cells carrying callbacks added at several places and copied by value", N: Fixed(2000, 1000000), Run: c13Copies},
			{Name: "a callback that renders its own table once from inside a pass: twice the invocations of a single pass", N: Fixed(300, 30000), Run: c13Nested},
			{Name: "callback registered on a by-value copy of a placed cell, the copy then added to another row (4 times x 2 ways of copying x 2 orders)", Exhaustive: true, N: Fixed(16, 16), Run: c13CopyOfPlaced},
			{Name: "a row hook appends a cell to the row being added (1-4 cells x 4 ways of making the row)", Exhaustive: true, N: Fixed(16, 16), Run: c13Growing},
		},
	})
}

// ---------------------------------------------------------------------------
// cells are the one callback owner that is passed and stored BY VALUE: a cell
// that already carries registrations can be added at several places, and a
// live cell can be copied out and added again.  Registrations made on one
// live cell afterwards must fire on that cell only.

type c13cReg struct {
	id      int
	home    string          // live cell the registration was made on ("" = on the caller's variable)
	carried map[string]bool // cells which legitimately carry it (home + later by-value copies of carriers)
	desc    string
}

type c13cLive struct {
	id  string // "row.col"
	loc tabular.CellLocation
}

func c13Copies(c *Ctx, i int, r *gen.R) {
	t := tabular.New()
	var log []string
	desc := map[string]interface{}{}
	c.Case = desc
	say := func(f string, a ...interface{}) { log = append(log, fmt.Sprintf(f, a...)); desc["history"] = log }
	var regs []*c13cReg
	type ev struct {
		g    *c13cReg
		cell string
		key  string
		seq  int
		live bool
	}
	var events []ev
	seq := 0
	mkcb := func(g *c13cReg) tabular.PropertyCallback {
		return cbFunc(func(o tabular.PropertyOwner) error {
			seq++
			e := ev{g: g, seq: seq, key: fmt.Sprintf("c13c/%d/%d", g.id, seq)}
			if x, ok := o.(*tabular.Cell); ok {
				loc := x.Location()
				e.cell = fmt.Sprintf("%d.%d", loc.Row, loc.Column)
				if p, err := t.CellAt(loc); err == nil && p == x {
					e.live = true
				}
				x.SetProperty(e.key, seq)
			} else {
				e.cell = fmt.Sprintf("?%T", o)
			}
			events = append(events, e)
			c.Rec.Count("callback_events_observed", 1)
			return nil
		})
	}
	newReg := func(home string, what string) *c13cReg {
		g := &c13cReg{id: len(regs) + 1, home: home, carried: map[string]bool{}, desc: what}
		if home != "" {
			g.carried[home] = true
		}
		regs = append(regs, g)
		return g
	}
	register := func(owner *tabular.Cell, g *c13cReg) bool {
		tg := cbTargets[r.Intn(2)]
		if err := t.RegisterPropertyCallback(owner, cbTimes[2], tg, mkcb(g)); err != nil {
			c.Rec.Violate("registration-refused:cell", fmt.Sprintf("registering a render-time callback on a cell failed: %v", err), desc)
			return false
		}
		c.Rec.Count("registrations", 1)
		return true
	}
	var live []c13cLive
	place := func(cell tabular.Cell, inherit func(id string)) {
		var row *tabular.Row
		if len(live) > 0 && r.Chance(1, 4) {
			// same row as the most recent placement
			rows := t.AllRows()
			row = rows[len(rows)-1]
		} else {
			row = t.AppendNewRow()
			for k := r.Intn(3); k > 0; k-- {
				row.Add(tabular.NewCell("filler"))
			}
		}
		row.Add(cell)
		loc := tabular.CellLocation{Row: row.Location().Row, Column: len(row.Cells())}
		id := fmt.Sprintf("%d.%d", loc.Row, loc.Column)
		live = append(live, c13cLive{id, loc})
		inherit(id)
		say("cell value added at (%s)", id)
	}
	// 1. a template cell, with some registrations made before it is anywhere
	tmpl := tabular.NewCell("template")
	var tmplRegs []*c13cReg
	npre := r.Range(0, 4)
	for k := 0; k < npre; k++ {
		g := newReg("", fmt.Sprintf("#%d on the caller's cell variable before it is added", len(regs)+1))
		if !register(&tmpl, g) {
			return
		}
		tmplRegs = append(tmplRegs, g)
		say("register %s", g.desc)
	}
	// 2. the template is added at 1-3 places
	for k := r.Range(1, 3); k > 0; k-- {
		place(tmpl, func(id string) {
			for _, g := range tmplRegs {
				g.carried[id] = true
			}
		})
	}
	// 3. further registrations and copies
	for k := r.Range(1, 6); k > 0; k-- {
		switch r.Intn(4) {
		case 0, 1:
			x := live[r.Intn(len(live))]
			p, err := t.CellAt(x.loc)
			if err != nil {
				c.Rec.Violate("liveness:cell-unreachable", fmt.Sprintf("CellAt(%+v): %v", x.loc, err), desc)
				return
			}
			g := newReg(x.id, fmt.Sprintf("#%d on live cell (%s)", len(regs)+1, x.id))
			say("register %s", g.desc)
			if !register(p, g) {
				return
			}
		case 2:
			x := live[r.Intn(len(live))]
			p, _ := t.CellAt(x.loc)
			cp := *p
			say("copy := *CellAt(%s)", x.id)
			place(cp, func(id string) {
				for _, g := range regs {
					if g.carried[x.id] {
						g.carried[id] = true
					}
				}
			})
		case 3:
			g := newReg("", fmt.Sprintf("#%d on the caller's cell variable after it was added (must never fire in the table)", len(regs)+1))
			say("register %s", g.desc)
			if !register(&tmpl, g) {
				return
			}
		}
	}
	// 4. render passes
	c.Rec.Eval(gen.Hash64("copies", fmt.Sprint(log)), true)
	for pass := r.Range(1, 2); pass > 0; pass-- {
		events = events[:0]
		trg := c13Triggers[r.Intn(len(c13Triggers))]
		say("render pass via %s", trg.name)
		trg.f(t)
		c.Rec.Count("windows_analysed", 1)
		count := map[string]int{}
		for _, e := range events {
			if !e.live {
				c.Rec.Violate("not-live-object:cell-copy-scenario", fmt.Sprintf("callback %s was handed a cell (%s) which is not the live cell at that location", e.g.desc, e.cell), desc)
				return
			}
			if !e.g.carried[e.cell] {
				c.Rec.Violate("cross-talk-between-cell-copies", fmt.Sprintf("callback %s fired on cell (%s), on which it was never registered and which is not a copy of a cell carrying it", e.g.desc, e.cell), desc)
				return
			}
			k := fmt.Sprintf("%d|%s", e.g.id, e.cell)
			count[k]++
			if count[k] > 1 {
				c.Rec.Violate("repeated:cell-copy-scenario", fmt.Sprintf("callback %s fired %d times on cell (%s) in one pass", e.g.desc, count[k], e.cell), desc)
				return
			}
			loc := tabular.CellLocation{}
			fmt.Sscanf(e.cell, "%d.%d", &loc.Row, &loc.Column)
			if p, err := t.CellAt(loc); err != nil || p.GetProperty(e.key) != interface{}(e.seq) {
				c.Rec.Violate("liveness:cell-copy-scenario", fmt.Sprintf("the property callback %s set on cell (%s) is not visible through CellAt", e.g.desc, e.cell), desc)
				return
			}
		}
		for _, g := range regs {
			// a registration fires on the live cell it was made on and on every cell that is a by-value
			// copy of a carrier (a cell value registered before it was added carries its callbacks with it)
			carriers := make([]string, 0, len(g.carried))
			for id := range g.carried {
				carriers = append(carriers, id)
			}
			sort.Strings(carriers)
			for _, id := range carriers {
				c.Rec.Count("mandatory_events_expected", 1)
				if n := count[fmt.Sprintf("%d|%s", g.id, id)]; n != 1 {
					kind := "missing:cell-copy-scenario"
					if g.home == "" {
						kind = "missing:callback-registered-on-cell-value-before-it-was-added"
					}
					c.Rec.Violate(kind, fmt.Sprintf("callback %s fired %d times on cell (%s) in this pass; exactly once is required", g.desc, n, id), desc)
					return
				}
			}
		}
	}
	if c.Rec.WantSample() && i%40 == 9 {
		c.Rec.Sample(map[string]interface{}{"cell_copy_scenario": log})
	}
}

// ---------------------------------------------------------------------------
// A row-targeted add-time callback which GROWS the row it is handed (a computed "total" cell appended by a hook)
// while table- and column-level cell callbacks are registered too.  Asserted for the cells the row had when it was
// added: exactly one invocation each, on the live cell (the property the callback sets is read back through
// CellAt).  For the appended cell only "at most once, and then on the live cell" is asserted: whether a cell that
// joins during the add is "one of its cells" is not settled by the statement.

func c13Growing(c *Ctx, i int, r *gen.R) {
	n := 1 + i%4 // cells the row starts with
	mode := (i / 4) % 4
	modes := []string{"t.AddRowItems (row exactly full)", "NewRow (roomy) + AddRow", "NewRowWithCapacity(n) + AddRow", "t.NewRowSizedFor + AddRow"}
	desc := map[string]interface{}{"cells": n, "row_made_by": modes[mode]}
	c.Case = desc
	c.Rec.Eval(gen.Hash64("growing", fmt.Sprint(i)), true)
	t := tabular.New()
	hs := make([]interface{}, n)
	for k := range hs {
		hs[k] = fmt.Sprintf("h%d", k+1)
	}
	t.AddHeaders(hs...)
	grown := 0
	t.RegisterPropertyCallback(t, tabular.CB_AT_ADD, tabular.CB_ON_ROW, cbFunc(func(o tabular.PropertyOwner) error {
		if row, ok := o.(*tabular.Row); ok && row.Location().Row > 0 && grown == 0 {
			grown++
			row.Add(tabular.NewCell("appended by the row hook"))
		}
		return nil
	}))
	type seen struct {
		n    int
		cell *tabular.Cell
	}
	byCol := map[int]*seen{}
	key := &struct{ k string }{"c13-growing"}
	t.RegisterPropertyCallback(t, tabular.CB_AT_ADD, tabular.CB_ON_CELL, cbFunc(func(o tabular.PropertyOwner) error {
		cell, ok := o.(*tabular.Cell)
		if !ok || cell.Location().Row == 0 {
			return nil
		}
		col := cell.Location().Column
		if byCol[col] == nil {
			byCol[col] = &seen{}
		}
		byCol[col].n++
		byCol[col].cell = cell
		cell.SetProperty(key, col)
		c.Rec.Count("callback_events_observed", 1)
		return nil
	}))
	items := make([]interface{}, n)
	for k := range items {
		items[k] = fmt.Sprintf("c%d", k+1)
	}
	addCells := func(row *tabular.Row) {
		for _, it := range items {
			row.Add(tabular.NewCell(it))
		}
	}
	switch mode {
	case 0:
		t.AddRowItems(items...)
	case 1:
		row := tabular.NewRow()
		addCells(row)
		t.AddRow(row)
	case 2:
		row := tabular.NewRowWithCapacity(n)
		addCells(row)
		t.AddRow(row)
	default:
		row := t.NewRowSizedFor()
		addCells(row)
		t.AddRow(row)
	}
	c.Rec.Count("rows_grown_by_a_row_hook_during_the_add", int64(grown))
	for col := 1; col <= n; col++ {
		s := byCol[col]
		if s == nil || s.n != 1 {
			k := 0
			if s != nil {
				k = s.n
			}
			c.Rec.Violate("growing-row:add-time-cell-callback-count", fmt.Sprintf("a row of %d cells (%s) was added while a row hook appended one more cell: the table-level add-time cell callback fired %d times for cell %d, expected once", n, modes[mode], k, col), desc)
			return
		}
		live, err := t.CellAt(tabular.CellLocation{Row: 1, Column: col})
		if err != nil {
			c.Rec.Violate("growing-row:cell-unreachable", fmt.Sprintf("CellAt(1,%d): %v", col, err), desc)
			return
		}
		if got := live.GetProperty(key); got != interface{}(col) {
			c.Rec.Violate("growing-row:callback-not-on-the-live-cell", fmt.Sprintf("a row of %d cells (%s) was added while a row hook appended one more cell: the property the add-time cell callback set on cell %d is not visible through the table (reads %v): the callback was handed a cell that is not the table's", n, modes[mode], col, got), desc)
			return
		}
	}
	if s := byCol[n+1]; s != nil {
		if s.n > 1 {
			c.Rec.Violate("growing-row:add-time-cell-callback-count", fmt.Sprintf("the cell appended by the row hook got the table-level add-time cell callback %d times", s.n), desc)
			return
		}
		if live, err := t.CellAt(tabular.CellLocation{Row: 1, Column: n + 1}); err == nil && live.GetProperty(key) != interface{}(n+1) {
			c.Rec.Violate("growing-row:callback-not-on-the-live-cell", "the add-time cell callback for the appended cell was handed a cell that is not the table's", desc)
			return
		}
	}
}
