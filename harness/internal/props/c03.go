package props

import (
	"fmt"
	"reflect"
	"strings"

	"go.pennock.tech/tabular"
	"go.pennock.tech/tabular/length"
	"go.pennock.tech/tabular/texttable"
	"go.pennock.tech/tabular/texttable/decoration"

	"verifharness/internal/gen"
	"verifharness/internal/model"
)

// C03 - a rendered text table is a rectangle whose columns fit their widest cell.
//
// Oracle: structural parser (model.ParseTextTable), no golden strings.

const c03Fam = gen.FAscii | gen.FNewline | gen.FWide | gen.FCombining | gen.FZero | gen.FEmoji | gen.FInvalid | gen.FEdge

// ownLines splits text into lines the way the statements describe: line
// breaks removed, at most one trailing line break ignored.
func ownLines(s string) []string {
	ss := strings.Split(s, "\n")
	if ss[len(ss)-1] == "" {
		ss = ss[:len(ss)-1]
	}
	return ss
}

// decoGlyphs returns the distinct non-empty exported glyph strings of d.
func decoGlyphs(d decoration.Decoration) []string {
	v := reflect.ValueOf(d)
	seen := map[string]bool{}
	var out []string
	for i := 0; i < v.NumField(); i++ {
		f := v.Type().Field(i)
		if f.PkgPath != "" || f.Type.Kind() != reflect.String {
			continue
		}
		s := v.Field(i).String()
		if s != "" && !seen[s] {
			seen[s] = true
			out = append(out, s)
		}
	}
	return out
}

// glyph pool for custom decorations: every entry measures one display cell
var c03GlyphPool = []string{"+", "-", "|", "=", "#", "*", ".", ":", "~", "o", "/", "\\", "X", " ", "\u2500", "\u2502", "\u253c", "\u2550", "\u2551", "\u256c", "\u00e9", "\u00b7", "x\u0338",
	// characters that mean something to a mechanism the library might build its lines with (fmt verbs, templates,
	// regexp replacements, os.Expand, HTML, quoting): as glyphs they are just one-cell glyphs
	"%", "%", "%", "$", "{", "}", "<", ">", "&", "\"", "'", "`", "?", "[", "]", "^", "(", ")", ",", ";", "!", "@", "0", "1", "s", "d", "v", "q", "n", "T"}

var decoFieldNames = func() []string {
	var out []string
	t := reflect.TypeOf(decoration.Decoration{})
	for i := 0; i < t.NumField(); i++ {
		if t.Field(i).PkgPath == "" && t.Field(i).Type.Kind() == reflect.String {
			out = append(out, t.Field(i).Name)
		}
	}
	return out
}()

// randomDecoration sets a random subset of the glyph fields and completes the rest with Populate.
func randomDecoration(r *gen.R) (decoration.Decoration, string) {
	d, desc := randomDecoration0(r)
	if r.Chance(1, 4) {
		// spelled out piece by piece: every piece a renderer draws is set, the four template fields the struct
		// documents as unused for rendering (from which Populate would infer the rest) are left empty
		d.Horizontal, d.Vertical, d.TopDown, d.VBorder = "", "", "", ""
		desc += " with Horizontal, Vertical, TopDown and VBorder left empty (spelled out piece by piece)"
	}
	return d, desc
}

func randomDecoration0(r *gen.R) (decoration.Decoration, string) {
	var d decoration.Decoration
	v := reflect.ValueOf(&d).Elem()
	var desc []string
	pool := c03GlyphPool
	if r.Chance(1, 3) {
		// derived from a decoration the library handed out (which has been through Populate already): some pieces are
		// blanked again - the documented way of asking for them to be inferred -, some are replaced, and Populate
		// completes the value once more
		names := decoration.RegisteredDecorationNames()
		base := names[r.Intn(len(names))]
		d = decoration.Named(base)
		if _, ok := mkDeco(base, d); !ok {
			d = decoration.ASCIIBoxSimple()
			base = "ASCIIBoxSimple()"
		}
		// (the base may be the boxless decoration: pieces are then switched ON, and what Populate infers from them)
		desc = append(desc, "derived from "+base)
		for _, name := range decoFieldNames {
			switch r.Intn(4) {
			case 0:
				v.FieldByName(name).SetString("")
				desc = append(desc, name+"=\"\"")
			case 1:
				if g := gen.Pick(r, pool); length.StringCells(g) == 1 {
					v.FieldByName(name).SetString(g)
					desc = append(desc, fmt.Sprintf("%s=%q", name, g))
				}
			}
		}
		d.Populate()
		return d, "custom{" + strings.Join(desc, ",") + "}.Populate()"
	}
	for _, name := range decoFieldNames {
		if r.Chance(1, 3) {
			g := gen.Pick(r, pool)
			if length.StringCells(g) != 1 {
				continue
			}
			v.FieldByName(name).SetString(g)
			desc = append(desc, fmt.Sprintf("%s=%q", name, g))
		}
	}
	d.Populate()
	return d, "custom{" + strings.Join(desc, ",") + "}.Populate()"
}

type namedDeco struct {
	name    string
	d       decoration.Decoration
	glyphs  []string
	boxless bool
	// hybrid: a value derived from the boxless decoration in which pieces have been switched on.  The library as
	// given draws its dividers and no rules; a complete set of rules would satisfy the statement as well, so both
	// structures are accepted (see parseText).
	hybrid bool
}

// boxlessLineage says whether a decoration value descends from the boxless one: with every exported field blanked
// it still differs from the zero decoration (the package keeps that fact where the program cannot see it).
func boxlessLineage(d decoration.Decoration) bool {
	v := reflect.ValueOf(&d).Elem()
	for i := 0; i < v.NumField(); i++ {
		if f := v.Field(i); f.CanSet() && f.Kind() == reflect.String {
			f.SetString("")
		}
	}
	return d != decoration.EmptyDecoration
}

// parseText checks a rendered text table under a decoration of the zoo.
func parseText(out string, nd namedDeco, m *model.TextModel) *model.TextParseError {
	perr := model.ParseTextTable(out, nd.glyphs, nd.boxless, m, length.StringCells)
	if perr != nil && nd.hybrid {
		if model.ParseTextTable(out, nd.glyphs, false, m, length.StringCells) == nil {
			return nil
		}
	}
	return perr
}

func mkDeco(name string, d decoration.Decoration) (namedDeco, bool) {
	nd := namedDeco{name: name, d: d, glyphs: decoGlyphs(d)}
	nd.boxless = boxlessLineage(d)
	nd.hybrid = nd.boxless && len(nd.glyphs) > 0
	for _, g := range nd.glyphs {
		if length.StringCells(g) != 1 {
			return nd, false
		}
	}
	if len(nd.glyphs) == 0 && !nd.boxless {
		return nd, false
	}
	return nd, true
}

// allDecorations = every registered one (read at run time) plus k random custom ones.
func allDecorations(c *Ctx, r *gen.R, k int) []namedDeco {
	var out []namedDeco
	for _, name := range decoration.RegisteredDecorationNames() {
		if nd, ok := mkDeco(name, decoration.Named(name)); ok {
			out = append(out, nd)
		} else {
			c.Rec.Count("decorations_skipped(glyph not one cell wide under the library's measure)", 1)
		}
	}
	for i := 0; i < k; i++ {
		d, desc := randomDecoration(r)
		if nd, ok := mkDeco(desc, d); ok {
			out = append(out, nd)
		}
	}
	return out
}

// textModelOf builds the oracle's model from a table spec.
func textModelOf(spec *gen.TableSpec) *model.TextModel {
	m := &model.TextModel{NCols: spec.NCols()}
	cellOf := func(it *gen.ItemSpec) model.TextCell {
		tc := model.TextCell{Lines: ownLines(it.Text())}
		if w, ok := it.DeclW(); ok {
			tc.DeclW = &w
		}
		if h, ok := it.DeclH(); ok {
			tc.DeclH = &h
		}
		return tc
	}
	if spec.HasHeader {
		hr := &model.TextRow{}
		for i := range spec.Header {
			hr.Cells = append(hr.Cells, cellOf(&spec.Header[i]))
		}
		m.Header = hr
		m.HeaderOptional = len(spec.Header) == 0
	}
	for i := range spec.Rows {
		rs := &spec.Rows[i]
		tr := model.TextRow{Sep: rs.Sep}
		for j := range rs.Items {
			tr.Cells = append(tr.Cells, cellOf(&rs.Items[j]))
		}
		m.Rows = append(m.Rows, tr)
	}
	return m
}

type c03Case struct {
	Table      gen.TableSpec `json:"table"`
	Decoration string        `json:"decoration"`
	Aligns     []int         `json:"alignment_column0_then_columns,omitempty"`
	Mode       string        `json:"mode,omitempty"`
}

// renderText renders t under decoration nd through a fresh wrapper.
func renderText(t tabular.Table, nd namedDeco) (string, error) {
	if (len(nd.name)+t.NRows()*3+t.NColumns())%5 == 0 {
		// the wrapper that renders is a by-value copy of what Wrap returned (a struct field, a slice element)
		cp := *texttable.Wrap(t)
		return cp.SetDecoration(nd.d).Render()
	}
	return texttable.Wrap(t).SetDecoration(nd.d).Render()
}

func c03Check(c *Ctx, spec *gen.TableSpec, decos []namedDeco, st *stage, sample bool) {
	t0 := tabular.New()
	reused := texttable.Wrap(t0)
	var b *gen.Built
	if st != nil {
		// one wrapper, created before the table is built, renders the partial table, the complete
		// table with items in their earlier state, and then (judged) the final table under every decoration
		b = spec.BuildStagedN(t0, st.points(), func() { o, _ := reused.Render(); c.Keep(o, "an earlier Render through the same wrapper") })
		reused.SetDecoration(decos[len(decos)-1].d).Render()
		if gen.Hash64(spec.Shape(), "finalize")%4 == 0 {
			// the items reach their final state, and their cells are updated, from inside the judged render
			b.FinalizeFromCallbacks()
			c.Rec.Count("staged_cases_whose_items_are_refreshed_by_pre-cell_callbacks_during_the_judged_render", 1)
		} else {
			b.Finalize()
		}
		c.Rec.Count("staged_cases(render, change, render again through the same wrapper)", 1)
	} else {
		b = spec.Build(t0)
	}
	m := textModelOf(spec) // after the build: a table whose wider header was replaced says itself how many columns it has
	widths := model.ColumnWidths(m, length.StringCells)
	multi, wide := false, false
	for i := range spec.Rows {
		for j := range spec.Rows[i].Items {
			txt := spec.Rows[i].Items[j].Text()
			if strings.Contains(txt, "\n") {
				multi = true
			}
			if length.StringCells(txt) != len(txt) {
				wide = true
			}
		}
	}
	nontrivial := spec.NBody() > 0 && (multi || wide)
	for _, nd := range decos {
		cs := &c03Case{Table: *spec, Decoration: nd.name}
		if st != nil {
			cs.Mode = st.Note
		}
		c.Case = cs
		var out string
		var err error
		if st != nil {
			out, err = reused.SetDecoration(nd.d).Render()
		} else {
			out, err = renderText(b.T, nd)
		}
		c.Rec.Eval(gen.Hash64(spec.Shape(), fmt.Sprint(spec.HeaderTexts()), fmt.Sprint(textsOf(spec)), nd.name), nontrivial)
		if err != nil {
			if out != "" {
				c.Rec.Violate("text:text-with-error", fmt.Sprintf("Render returned %d bytes together with error %v", len(out), err), cs)
				return
			}
			// the statement is unconditional for a table with at least one column under a complete decoration
			c.Rec.Violate("text:refused-although-in-domain", fmt.Sprintf("under decoration %s the text renderer refused a table with %d column(s): %v", nd.name, spec.NCols(), err), cs)
			return
		}
		c.Rec.Count("outputs_parsed", 1)
		if nd.boxless {
			c.Rec.Count("outputs_parsed_boxless", 1)
		}
		c.Rec.Count("lines_parsed", int64(strings.Count(out, "\n")))
		if nd.hybrid {
			c.Rec.Count("outputs_parsed_under_a_decoration_derived_from_the_boxless_one_with_pieces_switched_on", 1)
		}
		if perr := parseText(out, nd, m); perr != nil {
			c.Rec.Violate("text:"+perr.Class, fmt.Sprintf("under decoration %s (column widths %v): %s; output:\n%s", nd.name, widths, perr.Msg, out), cs)
			return
		}
		if sample && nontrivial && c.Rec.WantSample() {
			c.Rec.Sample(map[string]interface{}{"case": cs, "output_lines": strings.Split(out, "\n")})
		}
	}
}

func c03Item(r *gen.R) gen.ItemSpec {
	return r.TextItem(c03Fam, 5)
}

func c03Random(c *Ctx, i int, r *gen.R) {
	spec := r.Table(gen.TableOpts{MaxCols: 5, MaxRows: 6, ZeroHeaderOK: true, MinCols: 1, Item: c03Item, Noise: gen.NoiseSkipable | gen.NoiseCallbacks | gen.NoiseFailingCallbacks | gen.NoiseAlignElsewhere})
	c03Check(c, &spec, allDecorations(c, r, 2), drawStage(r, len(spec.Rows), spec.NCols()), true)
}

var c03Atoms = []string{"", "a", "\n", "\u4e16", "\u0301", "a\nbb", "\u200b", "\U0001F1E9\U0001F1EA", "\xff", "ab\n\ncd\n", " ", "\uff9e"}

func c03Pairs(c *Ctx, i int, r *gen.R) {
	n := len(c03Atoms)
	a, b2 := c03Atoms[i%n], c03Atoms[(i/n)%n]
	variant := i / (n * n)
	var spec gen.TableSpec
	switch variant {
	case 0:
		spec.HasHeader = true
		spec.Header = []gen.ItemSpec{gen.StrItem("h")}
		spec.Rows = []gen.RowSpec{{Items: []gen.ItemSpec{gen.StrItem(a), gen.StrItem(b2)}}, {Sep: true}, {Items: []gen.ItemSpec{gen.StrItem(b2 + a)}}, {Items: []gen.ItemSpec{}}}
	case 1:
		spec.HasHeader = true
		spec.Header = []gen.ItemSpec{gen.StrItem(a), gen.StrItem(b2), gen.StrItem("third")}
		spec.Rows = []gen.RowSpec{{Items: []gen.ItemSpec{gen.StrItem("x")}, Mode: gen.ModeAppendThenAdd}}
		spec.HeaderAt = 1
	}
	var st *stage
	if i%2 == 1 {
		st = &stage{At: i % 4, Note: "staged: wrapper reused"}
	}
	c03Check(c, &spec, allDecorations(c, r, 1), st, i%60 == 7)
}

func init() {
	n := len(c03Atoms)
	register(&Prop{
		ID:    "C03",
		Level: "exploration",
		Rule: "phase 0 (exhaustive over atoms): all pairs over a 12-atom alphabet (empty, letter, LF, wide, lone combining mark, multi-line, zero-width, flag pair, invalid byte, text with blank inner line and trailing LF, space, halfwidth voiced mark) as the two cells of a row (next to a shorter header, a separator and a zero-cell row) and as header cells, under every registered decoration and one random custom one; " +
			"phase 1: random grids of 1-5 columns x 0-6 rows (ragged and zero-cell rows, header absent/empty/shorter/longer and set before/between/after rows, separators anywhere, rows extended after attach) with texts of 0-5 atoms from ascii+LF+wide+combining+zero-width+emoji+invalid alphabets as strings/Stringers/GoStringers/errors/nested cells (no size overrides), each rendered under every registered decoration (read from the registry at run time) and 2 random custom decorations (random third of the 22 glyph fields set to random one-cell glyphs, then Populate()). " +
			"Output is parsed structurally: line kinds and counts, every column exactly w_i+2 wide on every line, dividers one cell wide. Distinct = distinct (shape, texts, decoration); non-trivial = at least one body row and some multi-line or non-ASCII-width text.",
		Assumptions: []string{
			"display width is the library's own length.StringCells; widths are summed slot by slot (the measure is grapheme-cluster based and not additive under concatenation)",
			"which glyph appears where is not asserted, only that dividers are single glyphs of the decoration, one cell wide",
			"tables without columns are excluded by the statement",
			"a header of zero cells may show as a blank header block or not at all",
		},
		Phases: []Phase{
			{Name: "hostile atom pairs x 2 table layouts x all decorations", Exhaustive: true, N: Fixed(n*n*2, n*n*2), Run: c03Pairs},
			{Name: "random grids x all decorations", N: Fixed(4000, 400000), Run: c03Random},
		},
	})
}
