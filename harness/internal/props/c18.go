package props

import (
	"fmt"
	"go.pennock.tech/tabular/texttable"
	"go.pennock.tech/tabular/texttable/decoration"
	"runtime"
	"strings"

	"go.pennock.tech/tabular"
	"go.pennock.tech/tabular/length"

	"verifharness/internal/gen"
)

// C18 - line and width metrics are mutually consistent.
//
// Monitor: metamorphic relations, each tying two independently computed
// library results together (no golden numbers).

const c18Fam = gen.FAscii | gen.FNewline | gen.FWide | gen.FCombining | gen.FZero | gen.FEmoji | gen.FInvalid | gen.FCR | gen.FSGR | gen.FEdge

func init() {
	register(&Prop{
		ID:    "C18",
		Level: "exploration",
		Rule: "case = one base string of 0-12 atoms drawn from newline+ascii+wide+combining+zero-width+emoji+invalid-UTF-8+CR+SGR alphabets (phase 0), or every string of <=3 atoms over a 12-atom hostile alphabet (phase 1, exhaustive); each is checked in 6 LF variants (as is, LF prepended, LF appended, 2 LF appended, 2 LF prepended + 1 appended, LF between two copies) and as 6 cell kinds (string, Stringer, GoStringer, error, nested Cell, *Cell), and one long-lived cell whose Stringer item is mutated through all variants and the empty string with Update after each. " +
			"Distinct = distinct base strings; non-trivial = contains a line feed or a non-ASCII byte.",
		Assumptions: []string{
			"display width is the library's own measure (length.StringCells); a defect inside that measure is only visible through the relations cells<=2*runes and LongestLine=max(per line)",
		},
		Phases: []Phase{
			{Name: "random strings", N: Fixed(50000, 5000000), Run: c18Random},
			{Name: "all strings of <=3 atoms over 12 hostile atoms", Exhaustive: true, N: Fixed(1+12+144+1728, 1+12+144+1728), Run: c18Exhaustive},
			{Name: "a long-lived text wrapper renders a cell whose text is replaced 300 times by texts of the same byte length and other widths, a collection after each", N: Fixed(8, 64), Run: c18Recycle},
			{Name: "very long lines (around 4 KiB and 64 KiB, and 200 kB) x 4 line shapes", Exhaustive: true, N: Fixed(len(c18LongLens)*4, len(c18LongLens)*4), Run: c18Long},
			{Name: "every Unicode code point (1 112 064 scalar values in blocks of 1024): alone, after a letter, doubled, and inside a two-line text", Exhaustive: true, N: Fixed(0x110000/1024, 0x110000/1024), Run: c18AllRunes},
		},
	})
}

var c18Atoms = []string{"\n", "a", " ", "\u4e16", "\u0301", "\u200b", "\xff", "\U0001F1E9", "\r", "\uff9e", "\u200d", "\t"}

var c18LongLens = []int{4095, 4096, 4097, 65535, 65536, 65537, 70000, 200000}

func c18Long(c *Ctx, i int, r *gen.R) {
	n := c18LongLens[i%len(c18LongLens)]
	var s string
	switch i / len(c18LongLens) {
	case 0:
		s = strings.Repeat("x", n)
	case 1:
		s = "short\n" + strings.Repeat("y", n) + "\nafter the long line"
	case 2:
		s = strings.Repeat("\u4e16", n/3) + "\n"
	case 3:
		s = strings.Repeat("ab\n", n/3)
	}
	c.Rec.Count("very_long_strings_checked", 1)
	c.Rec.Eval(gen.Hash64("long", fmt.Sprint(i)), true)
	c.Case = map[string]interface{}{"string": fmt.Sprintf("(%d bytes, shape %d)", len(s), i/len(c18LongLens))}
	c18String(c, s)
	c18Cells(c, s)
}

// c18AllRunes sweeps one block of 1024 code points: no alphabet is a substitute for the whole repertoire when the
// claim is "for every string" and the width tables are per code point.
func c18AllRunes(c *Ctx, i int, r *gen.R) {
	n := 0
	for cp := rune(i * 1024); cp < rune((i+1)*1024); cp++ {
		// the code point as a RUNE ITEM (surrogate values included: a rune item need not be a character): whatever
		// text the cell reads for it, its lines, height and width belong to that text
		{
			cell := tabular.NewCell(cp)
			text := cell.String()
			if h, nl := cell.Height(), len(cell.Lines()); h != nl {
				c.Rec.Violate("Cell.Height!=len(Lines):rune-item", fmt.Sprintf("cell of the rune item %#x (text %q): Height()=%d but len(Lines())=%d", cp, text, h, nl), map[string]interface{}{"rune_item": fmt.Sprintf("%#x", cp)})
				return
			}
			if w, want := cell.TerminalCellWidth(), length.LongestLineCells(text); w != want {
				c.Rec.Violate("Cell.Width!=LongestLineCells:rune-item", fmt.Sprintf("cell of the rune item %#x reads %q: TerminalCellWidth()=%d but its longest line measures %d", cp, text, w, want), map[string]interface{}{"rune_item": fmt.Sprintf("%#x", cp)})
				return
			}
		}
		if cp >= 0xD800 && cp <= 0xDFFF {
			continue // surrogates are not scalar values; as bytes they are invalid UTF-8, which the other phases cover
		}
		if cp == '\n' {
			continue
		}
		n++
		x := string(cp)
		for _, s := range []string{x, "a" + x, x + x, "line one\nb" + x + "c"} {
			c.Case = map[string]interface{}{"string": gen.Q(s), "code_point": fmt.Sprintf("U+%04X", cp)}
			c18String(c, s)
			if c.Rec.Stop() {
				return
			}
		}
		// a cell holding it: width and height agree with its lines
		s := x + "\n" + x + x
		cell := tabular.NewCell(s)
		if h, nl := cell.Height(), len(cell.Lines()); h != nl {
			c.Rec.Violate("Cell.Height!=len(Lines)", fmt.Sprintf("cell of %q: Height()=%d but len(Lines())=%d", s, h, nl), c.Case)
			return
		}
		if w, want := cell.TerminalCellWidth(), length.LongestLineCells(s); w != want {
			c.Rec.Violate("Cell.Width!=LongestLineCells", fmt.Sprintf("cell of %q: TerminalCellWidth()=%d but its longest line measures %d", s, w, want), c.Case)
			return
		}
	}
	c.Rec.Eval(gen.Hash64("allrunes", fmt.Sprint(i)), n > 0)
	c.Rec.Count("code_points_swept", int64(n))
}

func c18Random(c *Ctx, i int, r *gen.R) {
	base := r.StrN(c18Fam, r.Range(0, 12))
	c18Check(c, base)
}

func c18Exhaustive(c *Ctx, i int, r *gen.R) {
	// decode i as a string of length 0..3 over c18Atoms
	n := len(c18Atoms)
	var s string
	switch {
	case i == 0:
	case i < 1+n:
		s = c18Atoms[i-1]
	case i < 1+n+n*n:
		j := i - 1 - n
		s = c18Atoms[j/n] + c18Atoms[j%n]
	default:
		j := i - 1 - n - n*n
		s = c18Atoms[j/(n*n)] + c18Atoms[(j/n)%n] + c18Atoms[j%n]
	}
	c18Check(c, s)
}

func c18Check(c *Ctx, base string) {
	nontrivial := strings.Contains(base, "\n")
	for k := 0; k < len(base); k++ {
		if base[k] >= 0x80 {
			nontrivial = true
		}
	}
	c.Rec.Eval(gen.Hash64(base), nontrivial)
	if c.Rec.WantSample() && nontrivial {
		c.Rec.Sample(map[string]interface{}{"base": gen.Q(base)})
	}
	variants := []string{base, "\n" + base, base + "\n", base + "\n\n", "\n\n" + base + "\n", base + "\n" + base}
	for _, s := range variants {
		c.Case = map[string]interface{}{"string": gen.Q(s)}
		c18String(c, s)
		c18Cells(c, s)
	}
	// one long-lived cell whose item is mutated through all variants (and the empty string) with Update in between:
	// the relations must hold after every Update, whatever the cell held before
	item := &gen.PS_0{S: "initial text\nof two lines"}
	cell := tabular.NewCell(item)
	seq := append(append([]string{}, variants...), "", base+"\n", "", "x")
	for k, s := range seq {
		// a by-value copy taken now is a cell of its own: when only the original is updated after the mutation, the
		// copy goes on reporting the text it read last, with lines, height and width that belong to that text
		cp := cell
		before := cp.String()
		item.S = s
		cell.Update()
		if txt := cp.String(); txt != before {
			c.Rec.Violate("Cell-copy:text-follows-the-original's-Update", fmt.Sprintf("a by-value copy of a cell read %q; after the item was mutated to %q and only the ORIGINAL was updated, the copy reads %q", before, s, txt), map[string]interface{}{"mutation_sequence": qs(seq[:k+1])})
			return
		}
		if got, want := cp.Lines(), length.Lines(before); strings.Join(got, "\n") != strings.Join(want, "\n") || len(got) != len(want) || cp.Height() != len(got) || cp.TerminalCellWidth() != length.LongestLineCells(before) {
			c.Rec.Violate("Cell-copy:metrics-follow-the-original's-Update", fmt.Sprintf("a by-value copy of a cell still reads %q after only the original was updated to %q, but the copy's Lines()=%q, Height()=%d, TerminalCellWidth()=%d no longer belong to that text", before, s, got, cp.Height(), cp.TerminalCellWidth()), map[string]interface{}{"mutation_sequence": qs(seq[:k+1])})
			return
		}
		c.Rec.Count("cell_copies_checked_after_the_original_was_updated", 1)
		c.Rec.Count("cells_checked_after_mutation_and_Update", 1)
		text := cell.String()
		d := map[string]interface{}{"mutation_sequence": qs(seq[:k+1])}
		c.Case = d
		if text != s {
			c.Rec.Count("cells_with_unexpected_text", 1)
		}
		if h, n := cell.Height(), len(cell.Lines()); h != n {
			c.Rec.Violate("Cell.Height!=len(Lines):after-Update", fmt.Sprintf("after mutating the item to %q and Update: Height()=%d but len(Lines())=%d", s, h, n), d)
			return
		}
		if w, want := cell.TerminalCellWidth(), length.LongestLineCells(text); w != want {
			c.Rec.Violate("Cell.Width!=LongestLineCells:after-Update", fmt.Sprintf("after mutating the item to %q and Update: TerminalCellWidth()=%d but LongestLineCells(text)=%d", s, w, want), d)
			return
		}
		if e := cell.Empty(); e != (text == "") {
			c.Rec.Count("cells_with_unexpected_empty_flag", 1)
		}
	}
}

func qs(ss []string) []gen.Q {
	out := make([]gen.Q, len(ss))
	for i := range ss {
		out[i] = gen.Q(ss[i])
	}
	return out
}

func c18String(c *Ctx, s string) {
	viol := func(key, msg string) {
		c.Rec.Violate(key, msg, map[string]interface{}{"string": gen.Q(s)})
	}
	lines := length.Lines(s)
	c.Rec.Count("strings_checked", 1)
	c.Rec.Count("lines_checked", int64(len(lines)))
	joined := strings.Join(lines, "\n")
	if !(joined == s || joined+"\n" == s) {
		viol("Lines:loses-content", fmt.Sprintf("Lines(%q) = %q: joined with LF gives %q, which is neither the string nor the string minus one trailing LF", s, lines, joined))
	}
	for _, l := range lines {
		if strings.Contains(l, "\n") {
			viol("Lines:line-contains-LF", fmt.Sprintf("Lines(%q) has a line containing LF: %q", s, l))
		}
	}
	mb, mr, mc := 0, 0, 0
	for _, l := range lines {
		b, ru, ce := length.StringBytes(l), length.StringRunes(l), length.StringCells(l)
		if ru > b {
			viol("line:runes>bytes", fmt.Sprintf("line %q: %d runes > %d bytes", l, ru, b))
		}
		if ce > 2*ru {
			viol("line:cells>2*runes", fmt.Sprintf("line %q: %d cells > 2*%d runes", l, ce, ru))
		}
		if ce < 0 || ru < 0 || b < 0 {
			viol("line:negative-measure", fmt.Sprintf("line %q: negative measure b=%d r=%d c=%d", l, b, ru, ce))
		}
		if b > mb {
			mb = b
		}
		if ru > mr {
			mr = ru
		}
		if ce > mc {
			mc = ce
		}
	}
	if got := length.LongestLineBytes(s); got != mb {
		viol("LongestLineBytes!=max", fmt.Sprintf("LongestLineBytes(%q)=%d but max over Lines of StringBytes=%d", s, got, mb))
	}
	if got := length.LongestLineRunes(s); got != mr {
		viol("LongestLineRunes!=max", fmt.Sprintf("LongestLineRunes(%q)=%d but max over Lines of StringRunes=%d", s, got, mr))
	}
	if got := length.LongestLineCells(s); got != mc {
		viol("LongestLineCells!=max", fmt.Sprintf("LongestLineCells(%q)=%d but max over Lines of StringCells=%d", s, got, mc))
	}
}

// c18Restless is a Stringer which never answers the same twice: the base text followed by a growing tail of digits,
// every third answer with one more line.
type c18Restless struct {
	base string
	n    int
}

func (r *c18Restless) String() string {
	r.n++
	s := r.base + strings.Repeat("9", r.n)
	if r.n%3 == 0 {
		s += "\nanother line " + strings.Repeat("x", r.n)
	}
	return s
}

// c18Growing: a cell showing a buffer that grows (and shrinks): after every change the cell is asked to update, and
// its metrics must be those of the text it then reports - whatever relation the new text has to the old one (an
// extension of it, a leading part of it, the same text, something else).
type c18Buffer struct{ b []byte }

func (g *c18Buffer) String() string { return string(g.b) }

func c18Growing(c *Ctx, s string) {
	base := s
	if h := gen.Hash64("c18 growing", s); h%2 == 0 {
		for len(base) < 70+int(h%60) {
			base += s + "."
		}
	}
	buf := &c18Buffer{b: []byte(base)}
	cell := tabular.NewCell(buf)
	steps := []string{"+x", "+\nmore", "+ tail \u4e16\u754c", "+", "+\n", "+9999999999", "-3", "+y\nz", "-1", "=", "+\u0301"}
	k := int(gen.Hash64("c18 growing steps", s) % uint64(len(steps)))
	for n := 0; n < 5; n++ {
		st := steps[(k+n*3)%len(steps)]
		switch st[0] {
		case '+':
			buf.b = append(buf.b, st[1:]...)
		case '-':
			if cut := int(st[1] - '0'); len(buf.b) >= cut {
				buf.b = buf.b[:len(buf.b)-cut]
			}
		}
		cell.Update()
		c.Rec.Count("cells_updated_after_their_text_was_extended_or_cut", 1)
		text := cell.String()
		desc := map[string]interface{}{"first_text": gen.Q(base), "change": st, "text_now": gen.Q(text)}
		if h, l := cell.Height(), len(cell.Lines()); h != l {
			c.Rec.Violate("Cell.Height!=len(Lines):after-the-text-was-extended", fmt.Sprintf("cell of a growing buffer, after change %q and Update: text %q, Height()=%d but len(Lines())=%d", st, text, h, l), desc)
			return
		}
		if w, want := cell.TerminalCellWidth(), length.LongestLineCells(text); w != want {
			c.Rec.Violate("Cell.Width!=LongestLineCells:after-the-text-was-extended", fmt.Sprintf("cell of a growing buffer, after change %q and Update: text %q, TerminalCellWidth()=%d but LongestLineCells(text)=%d", st, text, w, want), desc)
			return
		}
		if text != string(buf.b) {
			c.Rec.Count("cells_with_unexpected_text", 1)
		}
	}
}

func c18Cells(c *Ctx, s string) {
	c18Growing(c, s)
	inner := tabular.NewCell(s)
	innerP := tabular.NewCell(s)
	kinds := []struct {
		name string
		item interface{}
	}{
		{"string", s},
		{"Stringer", gen.VS_0{S: s}},
		{"GoStringer", gen.VG_0{G: s}},
		{"error", gen.PE_0{E: s}},
		{"nested Cell", inner},
		{"*Cell", &innerP},
		// an item whose text method gives another answer every time it is asked (a live counter, a clock): whatever
		// text the cell read, its lines, height and width belong to THAT text
		{"Stringer whose answer changes with every call", &c18Restless{base: s}},
	}
	// ... and the other carriers of a text the item zoo knows (named string types of this and of other packages,
	// unnamed structs with promoted methods, types with look-alike methods, distinct types that print under one
	// name - the numeric one first), plus numbers and a bool: whatever text a cell reports, its metrics are that text's
	zoo := []string{"twinnameNum", "twinnameBool", "twinnameStr", "mystr", "tplhtml", "tplattr", "anonG", "anonPS", "anonSE", "lookS", "lookSB", "lookW", "lookH", "lookNone", "err", "bytes", "cellcycle2", "jsonnumber", "int64", "float", "fmtstr", "numlabel", "floatlabel", "boollabel", "durmicro", "fielder", "cellish"}
	if h := int(gen.Hash64("c18 carriers", s) % 1200); h%12 != 0 {
		// (three of them per string, all of them for every twelfth string)
		k := h % len(zoo)
		zoo = []string{"twinnameNum", zoo[k], zoo[(k+7)%len(zoo)]}
	}
	for _, kind := range zoo {
		spec := gen.ItemSpec{K: kind, Str: gen.Q(s), Num: int64(len(s)), Flt: float64(len(s)) / 8}
		kinds = append(kinds, struct {
			name string
			item interface{}
		}{"item zoo kind " + kind, spec.Make().Item})
	}
	for _, k := range kinds {
		item := k.item
		if k.name == "error" {
			item = &gen.PE_0{E: s}
		}
		cell := tabular.NewCell(item)
		c.Rec.Count("cells_checked", 1)
		text := cell.String()
		if text != s {
			// C01's business; C18 relates the metrics of whatever text the cell reports
			c.Rec.Count("cells_with_unexpected_text", 1)
		}
		lines := cell.Lines()
		if h := cell.Height(); h != len(lines) {
			c.Rec.Violate("Cell.Height!=len(Lines)", fmt.Sprintf("cell of %s item with text %q: Height()=%d but len(Lines())=%d", k.name, text, h, len(lines)),
				map[string]interface{}{"item_kind": k.name, "text": gen.Q(text)})
		}
		if w, want := cell.TerminalCellWidth(), length.LongestLineCells(text); w != want {
			c.Rec.Violate("Cell.Width!=LongestLineCells", fmt.Sprintf("cell of %s item with text %q: TerminalCellWidth()=%d but LongestLineCells(text)=%d", k.name, text, w, want),
				map[string]interface{}{"item_kind": k.name, "text": gen.Q(text)})
		}
		// what Lines() returned is the caller's: it may sort, trim or overwrite the elements of its slice, and the cell
		// still splits its own text the same way afterwards
		if len(lines) > 0 {
			scribbled := cell.Lines()
			for i := range scribbled {
				scribbled[i] = "overwritten by the caller"
			}
			again := cell.Lines()
			want := length.Lines(text)
			if strings.Join(again, "\n") != strings.Join(want, "\n") || len(again) != len(want) {
				c.Rec.Violate("Cell.Lines:changed-by-the-caller's-writes", fmt.Sprintf("cell of %s item with text %q: after the caller overwrote the elements of the slice an earlier Lines() call returned, Lines() gives %q", k.name, text, again),
					map[string]interface{}{"item_kind": k.name, "text": gen.Q(text)})
				return
			}
		}
		if strings.Join(lines, "\n") != strings.Join(length.Lines(text), "\n") || len(lines) != len(length.Lines(text)) {
			c.Rec.Violate("Cell.Lines!=Lines(text)", fmt.Sprintf("cell of %s item with text %q: Lines()=%q differs from length.Lines(text)=%q", k.name, text, lines, length.Lines(text)),
				map[string]interface{}{"item_kind": k.name, "text": gen.Q(text)})
		}
	}
}

// c18Recycle: one long-lived text wrapper, one cell showing a buffer whose text is replaced again and again by
// texts of the SAME byte length and different display width, the cell updated and the table rendered each time,
// with a forced garbage collection in between - so that a new text comes to lie where a dead one of the same
// length lay.  Whatever a renderer remembers about a text it no longer holds is about another text by then.  Every
// render must be a rectangle holding the current text.
func c18Recycle(c *Ctx, i int, r *gen.R) {
	n := []int{30, 24, 48, 12, 96, 30, 60, 16}[i%8] // byte length shared by all texts of the case
	mk := func(kind, salt int) string {
		var b strings.Builder
		switch kind % 4 {
		case 0: // ASCII: n bytes, n cells
			for b.Len() < n {
				b.WriteByte(byte('a' + (salt+b.Len())%26))
			}
		case 1: // CJK: 3 bytes, 2 cells each
			for b.Len()+3 <= n {
				b.WriteRune(rune(0x4e00 + (salt+b.Len())%200))
			}
		case 2: // two-byte letters: 2 bytes, 1 cell each
			for b.Len()+2 <= n {
				b.WriteRune(rune(0xe0 + (salt+b.Len())%20))
			}
		default: // combining marks: 2 bytes, 0 cells each, after one letter
			b.WriteByte('e')
			for b.Len()+2 <= n {
				b.WriteRune(0x301)
			}
		}
		for b.Len() < n {
			b.WriteByte('.')
		}
		return b.String()
	}
	desc := map[string]interface{}{"byte_length_of_every_text": n}
	c.Case = desc
	c.Rec.Eval(gen.Hash64("recycle", fmt.Sprint(i)), true)
	buf := &c18Buffer{}
	t := tabular.New()
	t.AddHeaders("h")
	t.AddRowItems(buf)
	tt := texttable.Wrap(t).SetDecoration(decoration.ASCIIBoxSimple())
	cell, err := t.CellAt(tabular.CellLocation{Row: 1, Column: 1})
	if err != nil {
		c.Rec.Violate("cell-unreachable", fmt.Sprint(err), desc)
		return
	}
	rounds := 300
	for k := 0; k < rounds; k++ {
		text := mk(r.Intn(4), k)
		buf.b = []byte(text)
		cell.Update()
		out, rerr := tt.Render()
		c.Rec.Count("renders_after_a_same-length_replacement_and_a_collection", 1)
		if rerr != nil {
			c.Rec.Violate("recycle:render-refused", fmt.Sprint(rerr), desc)
			return
		}
		lines := strings.Split(strings.TrimSuffix(out, "\n"), "\n")
		w := length.StringCells(lines[0])
		found := false
		for _, l := range lines {
			if length.StringCells(l) != w {
				desc["round"], desc["text"] = k, gen.Q(text)
				c.Rec.Violate("recycle:not-a-rectangle", fmt.Sprintf("round %d: after the buffer's text was replaced by %q (%d bytes, %d cells), Update and render through the long-lived wrapper, line %q is %d cells wide, the top rule %d; output:\n%s", k, text, len(text), length.StringCells(text), l, length.StringCells(l), w, out), desc)
				return
			}
			if strings.Contains(l, text) {
				found = true
			}
		}
		if !found {
			c.Rec.Violate("recycle:text-missing", fmt.Sprintf("round %d: the rendered table does not show the current text %q:\n%s", k, text, out), desc)
			return
		}
		if want := length.StringCells(text) + 4; w != want {
			c.Rec.Violate("recycle:column-width", fmt.Sprintf("round %d: text %q is %d cells wide, the table %d (expected %d)", k, text, length.StringCells(text), w, want), desc)
			return
		}
		buf.b = nil
		runtime.GC()
	}
}
