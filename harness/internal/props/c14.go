package props

import (
	"bufio"
	"bytes"
	"fmt"
	"go.pennock.tech/tabular/length"
	"html/template"
	"io"
	"runtime"
	"sort"
	"strings"

	"go.pennock.tech/tabular"
	"go.pennock.tech/tabular/auto"
	"go.pennock.tech/tabular/csv"
	"go.pennock.tech/tabular/html"
	"go.pennock.tech/tabular/json"
	"go.pennock.tech/tabular/markdown"
	"go.pennock.tech/tabular/properties"
	"go.pennock.tech/tabular/properties/align"
	"go.pennock.tech/tabular/texttable"
	"go.pennock.tech/tabular/texttable/decoration"

	"verifharness/internal/gen"
)

// C14 - rendering is repeatable and leaves the table unchanged.
//
// Monitor: every output is compared with the first output of its format, and
// a snapshot of the observable state is compared after every render.

type c14Key struct{ name string }

type c14Prop struct {
	owner string
	get   func() interface{}
	want  interface{}
}

type c14Snap struct {
	nrows, ncols int
	texts        []string
	locs         []tabular.CellLocation
	items        []interface{}
	hdr          []string
	errs         []error
}

func c14Snapshot(t tabular.Table) c14Snap {
	s := c14Snap{nrows: t.NRows(), ncols: t.NColumns(), errs: append([]error(nil), t.Errors()...)}
	for _, h := range t.Headers() {
		s.hdr = append(s.hdr, h.String())
	}
	for _, r := range t.AllRows() {
		for _, c := range r.Cells() {
			s.texts = append(s.texts, c.String())
			s.locs = append(s.locs, c.Location())
			s.items = append(s.items, c.Item())
		}
		l := r.Location()
		s.locs = append(s.locs, l)
	}
	return s
}

func (a *c14Snap) diff(b *c14Snap) string {
	switch {
	case a.nrows != b.nrows:
		return fmt.Sprintf("NRows %d -> %d", a.nrows, b.nrows)
	case a.ncols != b.ncols:
		return fmt.Sprintf("NColumns %d -> %d", a.ncols, b.ncols)
	case len(a.texts) != len(b.texts):
		return fmt.Sprintf("number of cells %d -> %d", len(a.texts), len(b.texts))
	case len(a.hdr) != len(b.hdr):
		return fmt.Sprintf("number of header cells %d -> %d", len(a.hdr), len(b.hdr))
	case len(a.errs) != len(b.errs):
		return fmt.Sprintf("error list length %d -> %d (last: %v)", len(a.errs), len(b.errs), b.errs[len(b.errs)-1:])
	case len(a.locs) != len(b.locs):
		return "number of locations changed"
	}
	for i := range a.texts {
		if a.texts[i] != b.texts[i] {
			return fmt.Sprintf("text of cell #%d %q -> %q", i, a.texts[i], b.texts[i])
		}
		if !sameItem(a.items[i], b.items[i]) {
			return fmt.Sprintf("item of cell #%d changed", i)
		}
	}
	for i := range a.hdr {
		if a.hdr[i] != b.hdr[i] {
			return fmt.Sprintf("header %d %q -> %q", i, a.hdr[i], b.hdr[i])
		}
	}
	for i := range a.locs {
		if a.locs[i] != b.locs[i] {
			return fmt.Sprintf("location #%d %+v -> %+v", i, a.locs[i], b.locs[i])
		}
	}
	for i := range a.errs {
		if a.errs[i] != b.errs[i] {
			return fmt.Sprintf("error #%d changed", i)
		}
	}
	return ""
}

type c14Case struct {
	Table    gen.TableSpec `json:"table"`
	Settings []string      `json:"column_settings"`
	Renders  []string      `json:"render_sequence"`
}

var c14OwnSeq int

func c14Run(c *Ctx, i int, r *gen.R) {
	spec := r.Table(gen.TableOpts{MaxCols: 4, MaxRows: 5, ZeroHeaderOK: true, MinCols: 0, Noise: gen.NoiseSkipable | gen.NoiseAlign | gen.NoiseCallbacks,
		Item: func(r *gen.R) gen.ItemSpec {
			switch r.Intn(12) {
			case 0:
				return r.AnyItem(c10Fam, 4, 1)
			case 1:
				return c04Item(r)
			case 2:
				return gen.StrItem("")
			case 3:
				return gen.ItemSpec{K: "nil"}
			}
			return r.TextItemSized(c10Fam, 5, length.StringCells)
		}})
	if r.Chance(1, 2) {
		// headers every renderer accepts (JSON needs unique non-empty keys for every column)
		spec.HasHeader = true
		spec.Header = nil
		for k := 0; k < spec.NCols(); k++ {
			spec.Header = append(spec.Header, gen.StrItem(fmt.Sprintf("key%d", k+1)))
		}
		if spec.HeaderAt > len(spec.Rows) {
			spec.HeaderAt = len(spec.Rows)
		}
	}
	cs := &c14Case{Table: spec}
	c.Case = cs
	t := tabular.New()
	b := spec.BuildStaged(t, -1, nil)
	// items which were created in an earlier state are mutated now WITHOUT Update: their cells must go on
	// showing the text they read when they were made, however often the table is rendered
	mutated := 0
	for i := range b.Cells {
		for j := range b.Cells[i] {
			if m := &b.Cells[i][j]; m.NeedsFinalize() && r.Bool() {
				m.Mutate(*m.Spec().F)
				mutated++
			}
		}
	}
	for j := range b.Header {
		if m := &b.Header[j]; m.NeedsFinalize() {
			if r.Bool() {
				m.Mutate(*m.Spec().F)
				mutated++
			}
		}
	}
	b.Rows = t.AllRows()
	if mutated > 0 {
		c.Rec.Count("items_mutated_without_Update_before_the_renders", int64(mutated))
	}
	// renderer-relevant settings: alignment and skipable, on column 0 and on columns
	if r.Chance(1, 2) {
		for n := 0; n <= t.NColumns(); n++ {
			if a := r.Intn(4); a != 0 {
				t.Column(n).SetProperty(align.PropertyType, alignVals[a])
				cs.Settings = append(cs.Settings, fmt.Sprintf("column %d alignment %s", n, alignNames[a]))
			}
		}
	}
	if r.Chance(1, 2) {
		for n := 0; n <= t.NColumns(); n++ {
			if v := r.Intn(3); v != 0 {
				t.Column(n).SetProperty(properties.Skipable, v == 1)
				cs.Settings = append(cs.Settings, fmt.Sprintf("column %d skipable %v", n, v == 1))
			}
		}
	}

	// user properties, placed before the first render on table, columns, rows and cells
	var props []c14Prop
	keyA, keyB := &c14Key{"user-a"}, &c14Key{"user-b"}
	put := func(owner string, po tabular.PropertyOwner, get func() tabular.PropertyOwner, k interface{}, v interface{}) {
		po.SetProperty(k, v)
		props = append(props, c14Prop{owner: owner, want: v, get: func() interface{} { return get().GetProperty(k) }})
	}
	put("table", t, func() tabular.PropertyOwner { return t }, keyA, "table-a")
	for n := 0; n <= t.NColumns(); n++ {
		n := n
		if r.Chance(2, 3) {
			put(fmt.Sprintf("column %d", n), t.Column(n), func() tabular.PropertyOwner { return t.Column(n) }, keyA, fmt.Sprintf("col-%d", n))
		}
	}
	for ri, row := range b.Rows {
		ri, row := ri, row
		put(fmt.Sprintf("row %d", ri+1), row, func() tabular.PropertyOwner { return t.AllRows()[ri] }, keyB, ri)
		for ci := range row.Cells() {
			ci := ci
			if r.Chance(1, 2) {
				loc := tabular.CellLocation{Row: ri + 1, Column: ci + 1}
				cell, err := t.CellAt(loc)
				if err != nil {
					continue
				}
				for _, k := range []interface{}{keyA, keyB, "plain-string-key"} {
					if r.Chance(2, 3) {
						put(fmt.Sprintf("cell %+v", loc), cell, func() tabular.PropertyOwner { p, _ := t.CellAt(loc); return p }, k, fmt.Sprintf("cell-%d-%d-%v", ri, ci, k))
					}
				}
			}
		}
	}
	// a cell that got properties before it was added: its chain is shared with the caller's variable
	pre := tabular.NewCell("pre-set")
	pre.SetProperty(keyA, "pre-a")
	pre.SetProperty(keyB, "pre-b")
	pre.SetProperty("third", 3)
	extra := t.AppendNewRow()
	extra.Add(pre)
	preLoc := tabular.CellLocation{Row: t.NRows(), Column: 1}
	for _, kv := range []struct{ k, v interface{} }{{keyA, "pre-a"}, {keyB, "pre-b"}, {"third", 3}} {
		kv := kv
		props = append(props, c14Prop{owner: "live cell added with properties", want: kv.v, get: func() interface{} { p, _ := t.CellAt(preLoc); return p.GetProperty(kv.k) }})
		props = append(props, c14Prop{owner: "caller's variable of that cell", want: kv.v, get: func() interface{} { return pre.GetProperty(kv.k) }})
	}
	t.AddError(fmt.Errorf("an error recorded before rendering"))

	// renderers: reusable wrappers and fresh ones
	htmlW := html.Wrap(t)
	htmlW.Caption = "cap"
	htmlG := html.Wrap(t).SetRowClassGenerator(func(n int, _ interface{}) template.HTMLAttr { return template.HTMLAttr(fmt.Sprintf("r%d", n)) }, nil)
	textW := texttable.Wrap(t)
	mdW := markdown.Wrap(t)
	csvW := csv.Wrap(t)
	jsonW := json.Wrap(t)
	type rd struct {
		name, format string
		f            func() (string, error)
	}
	rds := []rd{
		{"reused csv wrapper", "csv", csvW.Render},
		{"fresh csv.Render", "csv", func() (string, error) { return csv.Render(t) }},
		{"reused html wrapper (cached template)", "html+caption", htmlW.Render},
		{"reused html wrapper with generator", "html+generator", htmlG.Render},
		{"fresh html wrapper", "html", func() (string, error) { return html.Wrap(t).Render() }},
		{"reused json wrapper", "json", jsonW.Render},
		{"fresh json.Render", "json", func() (string, error) { return json.Render(t) }},
		{"reused markdown wrapper", "markdown", mdW.Render},
		{"fresh markdown.Render", "markdown", func() (string, error) { return markdown.Render(t) }},
	}
	for _, name := range decoration.RegisteredDecorationNames() {
		name := name
		if strings.HasPrefix(name, "c14-own-") {
			continue // names earlier cases of this process registered for themselves: they would crowd out the other formats
		}
		rds = append(rds,
			rd{"reused text wrapper switched to " + name, "text:" + name, func() (string, error) {
				if _, err := textW.SetDecorationNamed(name); err != nil {
					return "", err
				}
				return textW.Render()
			}},
			// the same long-lived wrapper, styled through the OTHER setter (by value): the two setters are used in any order
			rd{"reused text wrapper switched to " + name + " with SetDecoration(decoration.Named(name))", "text:" + name, func() (string, error) {
				return textW.SetDecoration(decoration.Named(name)).Render()
			}},
			rd{"auto.Render " + name, "text:" + name, func() (string, error) { return auto.Render(t, name) }},
			// valid styles which auto only resolves after trying other readings of the string first: a render that
			// succeeds leaves nothing behind on the table, whatever it took to find the decoration
			rd{"auto.Render " + name + ".compact (trailing section)", "text:" + name, func() (string, error) { return auto.Render(t, name+".compact") }},
			rd{"auto.Render TextTable." + name + ".x.y", "text:" + name, func() (string, error) { return auto.Render(t, "TextTable."+name+".x.y") }})
	}
	// wrappers that were styled BY NAME once, at set-up: what a name stood for then is what they draw, whatever the
	// application registers under that name later on (the steps below re-register it now and then)
	c14OwnSeq++
	ownName := fmt.Sprintf("c14-own-%d-%d-%d-%d", c.Shard, i, c.Seed, c14OwnSeq) // new to the process every time the case runs
	ownDecos := [2]decoration.Decoration{}
	ownDescs := [2]string{}
	ownDecos[0], ownDescs[0] = randomDecoration(r)
	ownDecos[1], ownDescs[1] = randomDecoration(r)
	ownNext := 1
	decoration.RegisterDecorationName(ownName, ownDecos[0])
	byName := texttable.Wrap(t)
	byName.SetDecorationNamed(ownName)
	rds = append(rds, rd{"long-lived text wrapper styled once with SetDecorationNamed(" + ownName + ")", "text:styled-by-name-at-set-up", byName.Render})
	if autoBy, ok := auto.Wrap(t, ownName).(*texttable.TextTable); ok {
		rds = append(rds, rd{"long-lived auto.Wrap(t, " + ownName + ")", "text:auto-styled-by-name-at-set-up", autoBy.Render})
	}
	// every (owner, key) over a fixed key set is read before the first render - whether set or not - and must read the same afterwards
	type probe struct {
		owner string
		get   func() interface{}
		want  interface{}
	}
	var probes []probe
	keyset := []interface{}{keyA, keyB, "plain-string-key", "third", align.PropertyType, properties.Skipable}
	addProbes := func(owner string, acc func() tabular.PropertyOwner) {
		for _, k := range keyset {
			k := k
			probes = append(probes, probe{owner: fmt.Sprintf("%s key %v", owner, k), get: func() interface{} { return acc().GetProperty(k) }})
		}
	}
	addProbes("table", func() tabular.PropertyOwner { return t })
	for n := 0; n <= t.NColumns(); n++ {
		n := n
		addProbes(fmt.Sprintf("column %d", n), func() tabular.PropertyOwner { return t.Column(n) })
	}
	for ri, row := range t.AllRows() {
		ri := ri
		addProbes(fmt.Sprintf("row %d", ri+1), func() tabular.PropertyOwner { return t.AllRows()[ri] })
		for ci := range row.Cells() {
			loc := tabular.CellLocation{Row: ri + 1, Column: ci + 1}
			addProbes(fmt.Sprintf("cell %+v", loc), func() tabular.PropertyOwner { p, _ := t.CellAt(loc); return p })
		}
	}
	for k := range probes {
		probes[k].want = probes[k].get()
	}
	before := c14Snapshot(t)
	first := map[string]string{}
	firstErr := map[string]bool{}
	firstBy := map[string]string{}
	// the reused wrappers also meet destinations that fail: a render that could not write is over when it returns
	faulty := []struct {
		name   string
		to     func(w io.Writer) error
		format string                 // "" = no fixed format (the text wrapper is restyled by other steps)
		again  func() (string, error) // the same wrapper's Render
	}{
		{"reused csv wrapper", csvW.RenderTo, "csv", csvW.Render}, {"reused html wrapper (cached template)", htmlW.RenderTo, "html+caption", htmlW.Render}, {"reused html wrapper with generator", htmlG.RenderTo, "html+generator", htmlG.Render},
		{"reused json wrapper", jsonW.RenderTo, "json", jsonW.Render}, {"reused markdown wrapper", mdW.RenderTo, "markdown", mdW.Render}, {"reused text wrapper", textW.RenderTo, "", nil},
	}
	// right after a render through a long-lived wrapper has failed (by error, by panic, by the goroutine ending),
	// the next step is a render through that very wrapper: a render that could not write is over when it returns
	var forced *rd
	// destinations the caller OWNS and goes on using: long-lived wrappers of their own (whose first destination
	// ever may thus be one of these) render into them in any order, again and again, and the caller writes lines
	// of its own in between.  In the end every destination holds exactly what was sent to it, in order.
	type ownedDest struct {
		name  string
		w     io.Writer
		flush func() error
		got   func() string
		want  strings.Builder
	}
	var ob0, ob1, ob2 bytes.Buffer
	var osb strings.Builder
	bw0, bw1 := bufio.NewWriter(&ob0), bufio.NewWriterSize(&ob1, 65536)
	owned := []*ownedDest{
		{name: "the caller's bufio.NewWriter (default size)", w: bw0, flush: bw0.Flush, got: ob0.String},
		{name: "the caller's 64 KiB bufio.Writer", w: bw1, flush: bw1.Flush, got: ob1.String},
		{name: "the caller's bytes.Buffer", w: &ob2, flush: func() error { return nil }, got: ob2.String},
		{name: "the caller's strings.Builder", w: &osb, flush: func() error { return nil }, got: osb.String},
	}
	csvO, jsonO, mdO, htmlO, textO := csv.Wrap(t), json.Wrap(t), markdown.Wrap(t), html.Wrap(t), texttable.Wrap(t)
	ownedRenders := []struct {
		name  string
		to    func(w io.Writer) error
		fresh func(w io.Writer) error // the same render through a wrapper made for the occasion
	}{
		{"long-lived csv wrapper", csvO.RenderTo, func(w io.Writer) error { return csv.RenderTo(t, w) }},
		{"long-lived json wrapper", jsonO.RenderTo, func(w io.Writer) error { return json.RenderTo(t, w) }},
		{"long-lived markdown wrapper", mdO.RenderTo, func(w io.Writer) error { return markdown.RenderTo(t, w) }},
		{"long-lived html wrapper", htmlO.RenderTo, func(w io.Writer) error { return html.Wrap(t).RenderTo(w) }},
		{"long-lived text wrapper", textO.RenderTo, func(w io.Writer) error { return texttable.RenderTo(t, w) }},
	}
	ownedSteps := 0
	checkOwned := func(when string) bool {
		for _, d := range owned {
			if err := d.flush(); err != nil {
				c.Rec.Violate("owned-destination:flush-fails", fmt.Sprintf("%s: flushing %s fails: %v", when, d.name, err), cs)
				return false
			}
			c.Rec.Count("caller-owned_destinations_compared_with_what_was_sent_to_them", 1)
			if got := d.got(); got != d.want.String() {
				c.Rec.Violate("owned-destination:holds-other-bytes", fmt.Sprintf("%s: %s holds %q; what was rendered into it and written to it by the caller, in order, is %q", when, d.name, got, d.want.String()), cs)
				return false
			}
		}
		return true
	}
	n := r.Range(5, 30)
	for k := 0; k < n; k++ {
		if forced == nil && r.Chance(1, 5) {
			d := owned[r.Intn(len(owned))]
			x := ownedRenders[r.Intn(len(ownedRenders))]
			if r.Bool() {
				line := fmt.Sprintf("-- a line of the caller's own, before step %d\n", k+1)
				io.WriteString(d.w, line)
				d.want.WriteString(line)
			}
			// (a render that is refused part-way - an item the JSON encoder cannot take - has written its beginning)
			var pb bytes.Buffer
			ferr := x.fresh(&pb)
			piece := pb.String()
			err := x.to(d.w)
			cs.Renders = append(cs.Renders, fmt.Sprintf("%s: RenderTo %s", x.name, d.name))
			ownedSteps++
			c.Rec.Count("renders_into_destinations_the_caller_owns_and_reuses", 1)
			if (err != nil) != (ferr != nil) {
				c.Rec.Violate("owned-destination:status-differs", fmt.Sprintf("step %d: %s into %s has error=%v, a fresh wrapper has error=%v", k+1, x.name, d.name, err, ferr), cs)
				return
			}
			d.want.WriteString(piece)
			if r.Chance(1, 3) && !checkOwned(fmt.Sprintf("after step %d", k+1)) {
				return
			}
			continue
		}
		if forced == nil && r.Chance(1, 10) {
			cs.Renders = append(cs.Renders, fmt.Sprintf("the application registers %s under the name %s (again)", ownDescs[ownNext], ownName))
			decoration.RegisterDecorationName(ownName, ownDecos[ownNext])
			ownNext = 1 - ownNext
			c.Rec.Count("names_registered_again_between_renders_of_wrappers_styled_by_that_name", 1)
			continue
		}
		if forced == nil && r.Chance(1, 12) {
			// looking at the table between renders (a log line, a debugger) is not a change either
			cs.Renders = append(cs.Renders, "the table, its rows and cells are formatted with %v and %#v")
			_ = fmt.Sprintf("%v %#v", t, t)
			for _, row := range t.AllRows() {
				_ = fmt.Sprintf("%v %#v %v", row, row, row.Cells())
			}
			c.Rec.Count("observations_through_fmt_between_renders", 1)
			continue
		}
		if forced == nil && r.Chance(1, 6) {
			f := faulty[r.Intn(len(faulty))]
			if f.again != nil {
				forced = &rd{f.name + " renders again, right after its destination failed", f.format, f.again}
			}
			if r.Chance(1, 4) {
				// the destination leaves Write by panicking (an aborted HTTP handler, a buffer that refuses to grow) and
				// the application recovers: the wrapper and the table are as usable afterwards as before
				pw := &panickingWriter{k: r.Range(1, 6)}
				cs.Renders = append(cs.Renders, fmt.Sprintf("%s: RenderTo a writer that panics in call %d (recovered by the caller)", f.name, pw.k))
				Guard(func() { f.to(pw) })
				c.Rec.Count("renders_into_a_panicking_writer_through_a_reused_wrapper", 1)
				continue
			}
			if r.Chance(1, 5) {
				// the destination ends the goroutine from inside Write (runtime.Goexit - what testing.T.FailNow, Fatal
				// and Skip do in a test's writer, what a worker does that is told to stop): deferred calls run, recover
				// sees nothing, RenderTo never returns - and the rest of the program carries on rendering
				gw := &goexitWriter{k: r.Range(1, 6)}
				cs.Renders = append(cs.Renders, fmt.Sprintf("%s: RenderTo, in a goroutine of its own, a writer that calls runtime.Goexit in call %d", f.name, gw.k))
				done := make(chan struct{})
				go func() {
					defer close(done)
					f.to(gw)
				}()
				<-done
				c.Rec.Count("renders_into_a_writer_that_ends_its_goroutine_through_a_reused_wrapper", 1)
				continue
			}
			w := &scriptWriter{k: r.Range(1, 12), mode: r.Intn(c15NModes)}
			cs.Renders = append(cs.Renders, fmt.Sprintf("%s: RenderTo a writer failing at call %d (%s)", f.name, w.k, c15ModeNames[w.mode]))
			f.to(w)
			c.Rec.Count("renders_into_a_failing_writer_through_a_reused_wrapper", 1)
			continue
		}
		x := rds[r.Intn(len(rds))]
		if forced != nil {
			x, forced = *forced, nil
			c.Rec.Count("renders_through_a_wrapper_right_after_its_destination_failed", 1)
		}
		cs.Renders = append(cs.Renders, x.name)
		out, err := x.f()
		c.Keep(out, x.name)
		c.Rec.Count("renders", 1)
		if prev, ok := first[x.format]; ok {
			c.Rec.Count("outputs_compared_with_first_of_format", 1)
			if (err != nil) != firstErr[x.format] {
				c.Rec.Violate("status-changes:"+formatClass(x.format), fmt.Sprintf("render #%d (%s) has error=%v; the first %s render (%s) had error=%v", k+1, x.name, err, x.format, firstBy[x.format], firstErr[x.format]), cs)
				return
			}
			if out != prev {
				c.Rec.Violate("output-changes:"+formatClass(x.format), fmt.Sprintf("render #%d (%s) produced %q; the first %s render (%s) produced %q", k+1, x.name, out, x.format, firstBy[x.format], prev), cs)
				return
			}
		} else {
			first[x.format], firstErr[x.format], firstBy[x.format] = out, err != nil, x.name
		}
		after := c14Snapshot(t)
		c.Rec.Count("snapshots_compared", 1)
		if d := before.diff(&after); d != "" {
			c.Rec.Violate("state-changes:"+formatClass(x.format), fmt.Sprintf("after render #%d (%s) the table's observable state changed: %s", k+1, x.name, d), cs)
			return
		}
		for _, p := range probes {
			c.Rec.Count("property_probes_read_back(set and unset keys)", 1)
			if got := p.get(); got != p.want {
				c.Rec.Violate("property-appears-or-changes:"+formatClass(x.format), fmt.Sprintf("after render #%d (%s) %s reads %v, before the first render it read %v", k+1, x.name, p.owner, got, p.want), cs)
				return
			}
		}
		for _, p := range props {
			c.Rec.Count("user_properties_read_back", 1)
			if got := p.get(); got != p.want {
				c.Rec.Violate("user-property-changes:"+formatClass(x.format), fmt.Sprintf("after render #%d (%s) the user property on the %s reads %v, was set to %v", k+1, x.name, p.owner, got, p.want), cs)
				return
			}
		}
	}
	if ownedSteps > 0 && !checkOwned("at the end of the sequence") {
		return
	}
	c.Rec.Eval(gen.Hash64(spec.Shape(), fmt.Sprint(spec.HeaderTexts()), fmt.Sprint(textsOf(&spec)), fmt.Sprint(cs.Renders)), len(first) >= 2)
	if c.Rec.WantSample() && i%15 == 4 {
		c.Rec.Sample(map[string]interface{}{"shape": spec.Shape(), "render_sequence": cs.Renders, "user_properties": len(props)})
	}
}

// c14Long renders one small table hundreds of times through fresh wrappers of alternating formats:
// whatever a render leaves behind on the table (registered callbacks, properties) must not add up to a visible change.
func c14Long(c *Ctx, i int, r *gen.R) {
	t := tabular.New()
	t.AddHeaders("k1", "k2")
	t.AddRowItems("a", 1)
	t.AddSeparator()
	t.AddRowItems("b\nb", "")
	rounds := r.Range(150, 400)
	desc := map[string]interface{}{"renders": rounds, "pattern": "fresh wrappers, formats alternating"}
	c.Case = desc
	before := c14Snapshot(t)
	first := map[string]string{}
	kinds := []struct {
		name string
		f    func() (string, error)
	}{
		{"text", func() (string, error) { return texttable.Render(t) }},
		{"markdown", func() (string, error) { return markdown.Render(t) }},
		{"csv", func() (string, error) { return csv.Render(t) }},
		{"json", func() (string, error) { return json.Render(t) }},
		{"html", func() (string, error) { return html.Wrap(t).Render() }},
		{"auto:utf8-light", func() (string, error) { return auto.Render(t, "utf8-light") }},
	}
	pat := [][]int{{0, 1}, {0, 1, 2}, {1, 0, 5}, {0, 3, 1, 4}}[i%4]
	for k := 0; k < rounds; k++ {
		x := kinds[pat[k%len(pat)]]
		out, err := x.f()
		c.Keep(out, x.name)
		c.Rec.Count("renders", 1)
		if err != nil {
			c.Rec.Violate("long-sequence:render-fails:"+x.name, fmt.Sprintf("render #%d (%s) of a well-formed table failed: %v", k+1, x.name, err), desc)
			return
		}
		if prev, ok := first[x.name]; ok && prev != out {
			c.Rec.Violate("output-changes:"+formatClass(x.name), fmt.Sprintf("render #%d (%s) differs from the first %s render", k+1, x.name, x.name), desc)
			return
		}
		first[x.name] = out
		after := c14Snapshot(t)
		c.Rec.Count("snapshots_compared", 1)
		if d := before.diff(&after); d != "" {
			c.Rec.Violate("state-changes:after-many-renders", fmt.Sprintf("after render #%d (%s, fresh wrapper) the table's observable state changed: %s", k+1, x.name, d), desc)
			return
		}
	}
	c.Rec.Eval(gen.Hash64("long", fmt.Sprint(i, rounds)), true)
}

// panickingWriter accepts k-1 writes and panics in the k-th.
type panickingWriter struct{ k, calls int }

// goexitWriter accepts k-1 writes and ends the calling goroutine in the k-th.
type goexitWriter struct{ k, calls int }

func (w *goexitWriter) Write(p []byte) (int, error) {
	w.calls++
	if w.calls >= w.k {
		runtime.Goexit()
	}
	return len(p), nil
}

func (w *panickingWriter) Write(p []byte) (int, error) {
	w.calls++
	if w.calls >= w.k {
		panic("the destination aborted the write (as net/http's ErrAbortHandler does)")
	}
	return len(p), nil
}

func formatClass(f string) string {
	if len(f) > 5 && f[:5] == "text:" {
		return "text"
	}
	return f
}

func init() {
	register(&Prop{
		ID:    "C14",
		Level: "exploration",
		Rule: "one random table per case (as in C10, with empty and nil cells, half of the tables with unique non-empty headers so that JSON renders, half with a random alignment assignment and half with a random skipable assignment on column 0 and the columns) with user properties placed before the first render on the table, on 2/3 of the columns incl. column 0, on every row, on half of the cells (up to 3 keys each) and on a cell that received 3 properties before it was added (so its chain is shared with the caller's variable), plus one recorded error; then a random sequence of 5-30 renders drawn from 9 non-text renderers (reused and fresh csv/html/json/markdown wrappers, html with cached template, caption and generator) and 2 text renderers per registered decoration (one reused wrapper switched between decorations, auto.Render). " +
			"Each output must equal the first of its format; after every render the snapshot (NRows, NColumns, every cell's text, item identity and location, row locations, header texts, error list identities) and all user properties must be unchanged, and every (owner, key) over a fixed key set incl. the alignment and skipable keys must read what it read before the first render, set or not. Items created in an earlier state are mutated without Update before the renders: their cells must keep the text they had. A second phase renders one small table 150-400 times through fresh wrappers of alternating formats (text/markdown, ...) with the snapshot compared after every render. A third phase interleaves building, configuring (alignment, skipable), mutating (+Update) and rendering (wrappers kept for the whole history, and fresh ones) in histories of 8-40 steps; at every render the output must equal that of a twin rebuilt from the same operations which has never been rendered. Distinct = distinct (table, render sequence) resp. histories; non-trivial = at least 2 formats / 2 renders.",
		Assumptions: []string{
			"no user callback fails or mutates (the statement's proviso)",
			"the library's private measurement properties and the number of registered callbacks are not part of the snapshot",
		},
		Phases: []Phase{
			{Name: "random tables x random render sequences", N: Fixed(1000, 300000), Run: c14Run},
			{Name: "one table rendered 150-400 times through fresh wrappers of alternating formats", N: Fixed(8, 400), Run: c14Long},
			{Name: "interleaved build/configure/mutate/render histories compared with a never-rendered twin", N: Fixed(1500, 300000), Run: c14TwinHistory},
		},
	})
}

// ---------------------------------------------------------------------------
// histories against a twin: a long-lived table is built, configured, mutated AND rendered (through
// wrappers kept for the whole history, and fresh ones) in one interleaved history; at every render the
// output must equal what a twin produces - a table rebuilt from the same building/configuring/mutating
// operations which has never been rendered before, through a fresh wrapper.  If rendering leaves anything
// behind (on the table, a column, a cell, a wrapper or in the package) that a later operation or render
// trips over, the live table and its twin part ways.

type c14World struct {
	t     *tabular.ATable
	rows  []*tabular.Row
	items map[[2]int]*gen.PS_0
}

func newC14World() *c14World {
	return &c14World{t: tabular.New(), items: map[[2]int]*gen.PS_0{}}
}

type c14TwinOp struct {
	desc string
	do   func(w *c14World)
}

type c14CellSpec struct {
	text    string
	mutable bool
}

func (w *c14World) mkItem(row, col int, cs c14CellSpec) interface{} {
	if cs.mutable {
		it := &gen.PS_0{S: cs.text}
		w.items[[2]int{row, col}] = it
		return it
	}
	return cs.text
}

func c14TwinHistory(c *Ctx, i int, r *gen.R) {
	live := newC14World()
	var ops []c14TwinOp
	var log []string
	desc := map[string]interface{}{}
	c.Case = desc
	apply := func(op c14TwinOp) {
		ops = append(ops, op)
		log = append(log, op.desc)
		desc["history"] = log
		op.do(live)
	}
	fam := gen.FAscii | gen.FNewline | gen.FWide | gen.FHTML | gen.FMD | gen.FCSV
	cell := func() c14CellSpec {
		return c14CellSpec{text: r.Str(fam, 4), mutable: r.Chance(1, 3)}
	}
	nrows := func() int { return len(live.rows) }
	// wrappers kept for the whole history
	keptText := texttable.Wrap(live.t)
	keptMD := markdown.Wrap(live.t)
	keptCSV := csv.Wrap(live.t)
	keptJSON := json.Wrap(live.t)
	keptHTML := html.Wrap(live.t)
	type route struct {
		name  string
		live  func() (string, error)
		fresh func(t tabular.Table) (string, error)
	}
	deco := c17Builtins[r.Intn(len(c17Builtins))]
	routes := []route{
		{"text (kept wrapper)", keptText.Render, func(t tabular.Table) (string, error) { return texttable.Wrap(t).Render() }},
		{"text (fresh wrapper)", func() (string, error) { return texttable.Render(live.t) }, func(t tabular.Table) (string, error) { return texttable.Wrap(t).Render() }},
		{"text " + deco + " (auto)", func() (string, error) { return auto.Render(live.t, deco) }, func(t tabular.Table) (string, error) { return auto.Render(t, deco) }},
		{"markdown (kept wrapper)", keptMD.Render, func(t tabular.Table) (string, error) { return markdown.Wrap(t).Render() }},
		{"markdown (fresh wrapper)", func() (string, error) { return markdown.Render(live.t) }, func(t tabular.Table) (string, error) { return markdown.Wrap(t).Render() }},
		{"csv (kept wrapper)", keptCSV.Render, func(t tabular.Table) (string, error) { return csv.Wrap(t).Render() }},
		{"json (kept wrapper)", keptJSON.Render, func(t tabular.Table) (string, error) { return json.Wrap(t).Render() }},
		{"json (fresh wrapper)", func() (string, error) { return json.Render(live.t) }, func(t tabular.Table) (string, error) { return json.Wrap(t).Render() }},
		{"html (kept wrapper)", keptHTML.Render, func(t tabular.Table) (string, error) { return html.Wrap(t).Render() }},
	}
	var alignedCols []int
	// configuration of the kept HTML wrapper (wrapper state, not table state): the twin's fresh wrapper gets the current one
	htmlCfg := struct {
		id, class, caption string
		gen                bool
	}{}
	genFn := func(n int, _ interface{}) template.HTMLAttr { return template.HTMLAttr(fmt.Sprintf("row-%d", n)) }
	routes[len(routes)-1].fresh = func(t tabular.Table) (string, error) {
		h := html.Wrap(t)
		h.Id, h.Class, h.Caption = htmlCfg.id, htmlCfg.class, htmlCfg.caption
		if htmlCfg.gen {
			h.SetRowClassGenerator(genFn, nil)
		}
		return h.Render()
	}
	renders := 0
	steps := r.Range(8, 40)
	for s := 0; s < steps; s++ {
		switch r.Intn(14) {
		case 0:
			n := r.Range(0, 4)
			hs := make([]interface{}, n)
			for k := range hs {
				hs[k] = fmt.Sprintf("key%d", k+1)
				if r.Chance(1, 6) {
					hs[k] = r.Str(fam, 2)
				}
			}
			apply(c14TwinOp{fmt.Sprintf("AddHeaders(%d items)", n), func(w *c14World) { w.t.AddHeaders(hs...) }})
		case 1, 2:
			n := r.Range(0, 4)
			cs := make([]c14CellSpec, n)
			for k := range cs {
				cs[k] = cell()
			}
			row := nrows()
			apply(c14TwinOp{fmt.Sprintf("AddRowItems(%d items)", n), func(w *c14World) {
				items := make([]interface{}, n)
				for k := range items {
					items[k] = w.mkItem(row, k, cs[k])
				}
				w.t.AddRowItems(items...)
				all := w.t.AllRows()
				w.rows = append(w.rows, all[len(all)-1])
			}})
		case 3:
			apply(c14TwinOp{"AppendNewRow()", func(w *c14World) { w.rows = append(w.rows, w.t.AppendNewRow()) }})
		case 4:
			apply(c14TwinOp{"AddSeparator()", func(w *c14World) {
				w.t.AddSeparator()
				all := w.t.AllRows()
				w.rows = append(w.rows, all[len(all)-1])
			}})
		case 5, 6:
			if nrows() == 0 {
				continue
			}
			row := r.Intn(nrows())
			if live.rows[row].IsSeparator() {
				continue
			}
			col := len(live.rows[row].Cells())
			cs := cell()
			apply(c14TwinOp{fmt.Sprintf("row %d .Add(cell)", row+1), func(w *c14World) {
				w.rows[row].Add(tabular.NewCell(w.mkItem(row, col, cs)))
			}})
		case 7:
			col := r.Range(0, live.t.NColumns())
			a := r.Intn(4)
			if len(alignedCols) > 0 && r.Bool() {
				// touch a column again that already has a setting; half of the time withdraw it
				// (if it still exists: a shorter replacement header may legitimately have shrunk the table)
				if old := alignedCols[r.Intn(len(alignedCols))]; old <= live.t.NColumns() {
					col = old
					if r.Bool() {
						a = 0
					}
				}
			}
			if a != 0 {
				alignedCols = append(alignedCols, col)
			}
			apply(c14TwinOp{fmt.Sprintf("column %d alignment := %s", col, alignNames[a]), func(w *c14World) {
				var v interface{}
				if a != 0 {
					v = alignVals[a]
				}
				w.t.Column(col).SetProperty(align.PropertyType, v)
			}})
		case 8:
			col := r.Range(0, live.t.NColumns())
			v := []interface{}{nil, true, false}[r.Intn(3)]
			apply(c14TwinOp{fmt.Sprintf("column %d skipable := %v", col, v), func(w *c14World) {
				w.t.Column(col).SetProperty(properties.Skipable, v)
			}})
		case 11:
			// reconfigure the kept HTML wrapper
			htmlCfg.id, htmlCfg.class, htmlCfg.caption, htmlCfg.gen = r.Str(gen.FAscii|gen.FHTML, 2), r.Str(gen.FAscii, 2), r.Str(gen.FAscii|gen.FHTML, 2), r.Bool()
			keptHTML.Id, keptHTML.Class, keptHTML.Caption = htmlCfg.id, htmlCfg.class, htmlCfg.caption
			if htmlCfg.gen {
				keptHTML.SetRowClassGenerator(genFn, nil)
			} else {
				keptHTML.SetRowClassGenerator(nil, nil)
			}
			log = append(log, fmt.Sprintf("kept HTML wrapper reconfigured (generator=%v)", htmlCfg.gen))
		case 9, 10:
			// mutate an item in place and Update its cell
			var keys [][2]int
			for k := range live.items {
				keys = append(keys, k)
			}
			if len(keys) == 0 {
				continue
			}
			sort.Slice(keys, func(a, b int) bool {
				return keys[a][0] < keys[b][0] || keys[a][0] == keys[b][0] && keys[a][1] < keys[b][1]
			})
			k := keys[r.Intn(len(keys))]
			nt := r.Str(fam, 4)
			if r.Chance(1, 3) {
				nt = sameShapeText(live.items[k].S)
			}
			apply(c14TwinOp{fmt.Sprintf("item of cell (%d,%d) mutated to %q, then Update", k[0]+1, k[1]+1, nt), func(w *c14World) {
				w.items[k].S = nt
				if p, err := w.t.CellAt(tabular.CellLocation{Row: k[0] + 1, Column: k[1] + 1}); err == nil {
					p.Update()
				}
			}})
		default:
			// render the live table; its twin has never been rendered
			rt := routes[r.Intn(len(routes))]
			log = append(log, "render: "+rt.name)
			desc["history"] = log
			out, err := rt.live()
			c.Keep(out, rt.name)
			twin := newC14World()
			for _, op := range ops {
				op.do(twin)
			}
			want, werr := rt.fresh(twin.t)
			renders++
			c.Rec.Count("renders_compared_with_a_never_rendered_twin", 1)
			if (err != nil) != (werr != nil) || out != want {
				c.Rec.Violate("live-table-differs-from-twin:"+formatClass(strings.Fields(rt.name)[0]), fmt.Sprintf("after %d steps, %s of the long-lived table gives %q (err %v); a twin rebuilt from the same %d building/configuring/mutating operations and never rendered before gives %q (err %v)", len(log), rt.name, out, err, len(ops), want, werr), desc)
				return
			}
		}
	}
	c.Rec.Eval(gen.Hash64("twin", fmt.Sprint(log)), renders >= 2)
	c.Rec.Count("twin_history_steps", int64(len(log)))
	if c.Rec.WantSample() && i%25 == 6 {
		c.Rec.Sample(map[string]interface{}{"history_against_a_twin": log})
	}
}

// sameShapeText rotates ASCII letters and digits (same width, same number of lines).
func sameShapeText(s string) string {
	b := []byte(s)
	for i, ch := range b {
		switch {
		case ch >= 'a' && ch <= 'z':
			b[i] = 'a' + (ch-'a'+1)%26
		case ch >= 'A' && ch <= 'Z':
			b[i] = 'A' + (ch-'A'+1)%26
		case ch >= '0' && ch <= '9':
			b[i] = '0' + (ch-'0'+1)%10
		}
	}
	return string(b)
}
