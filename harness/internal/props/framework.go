// Package props holds one file per property (workload + oracle) and the
// small framework that runs their cases in shards.
package props

import (
	"encoding/binary"
	"fmt"
	"os"
	"runtime"
	"runtime/debug"
	"sort"
	"strconv"
	"strings"
	"sync/atomic"
	"syscall"
	"time"

	runewidth "github.com/mattn/go-runewidth"

	"verifharness/internal/ev"
	"verifharness/internal/gen"
)

// Ctx is what a case sees.
type Ctx struct {
	Rec      *ev.Recorder
	Prop     *Prop
	Tier     string
	Thorough bool
	Seed     uint64
	Shard    int
	NShards  int
	Verbose  bool        // replay mode
	Case     interface{} // description of the running case, attached to a panic report
	kept     []keptString
	OutDir   string // scratch directory of this run (race logs, strace files)
	Exe      string // path of the vcheck binary (for grandchildren)
}

// Phase is an indexed family of cases; case i of a phase is a pure function
// of (seed, property, phase, i).
type Phase struct {
	Name       string
	Exhaustive bool // the phase enumerates a finite space completely
	N          func(thorough bool) int
	Run        func(c *Ctx, i int, r *gen.R)
	Solo       bool // whole phase runs in shard 0 (measurements that need a quiet process)
}

// Prop describes one property's check.
type Prop struct {
	ID            string
	Level         string // evidence level
	Rule          string // how cases are generated and what makes one non-trivial / distinct
	Assumptions   []string
	Race          bool // built with -race; the parent parses the race-detector logs
	NoWidthSwitch bool // skip the final pass under switched East Asian widths
	Shards        func(thorough bool) int
	Phases        []Phase
	// Post runs in the parent after all shards finished (e.g. to interpret race logs); may be nil.
}

// Registry of all properties.
var Registry = map[string]*Prop{}

func register(p *Prop) { Registry[p.ID] = p }

// IDs lists the registered property ids in order.
func IDs() []string {
	var out []string
	for k := range Registry {
		out = append(out, k)
	}
	sort.Strings(out)
	return out
}

// Fixed returns a constant case count.
func Fixed(quick, thorough int) func(bool) int {
	return func(t bool) int {
		if t {
			return thorough
		}
		return quick
	}
}

// shardOf assigns case i to a shard by a hash of i: enumerated spaces often put their expensive cases at indices
// with a common residue, which a plain i mod n would all hand to the same process.
func shardOf(i, n int) int {
	x := uint64(i) + 0x9e3779b97f4a7c15
	x = (x ^ (x >> 30)) * 0xbf58476d1ce4e5b9
	x = (x ^ (x >> 27)) * 0x94d049bb133111eb
	x ^= x >> 31
	return int(x % uint64(n))
}

// RunShard executes this shard's share of every phase.
func RunShard(c *Ctx, progress *os.File) {
	p := c.Prop
	if pe := os.Getenv("VERIF_PROC_ENV"); pe != "" {
		c.Rec.Count("shards_started_with_other_environment_variables", 1)
		c.Rec.Count("detail:shard_environment:"+pe, 1)
	}
	for pi := range p.Phases {
		ph := &p.Phases[pi]
		n := ph.N(c.Thorough)
		for i := 0; i < n; i++ {
			if ph.Solo {
				if c.Shard != 0 {
					break
				}
			} else if shardOf(i, c.NShards) != c.Shard {
				continue
			}
			if progress != nil {
				var buf [16]byte
				binary.LittleEndian.PutUint64(buf[0:], uint64(pi))
				binary.LittleEndian.PutUint64(buf[8:], uint64(i))
				progress.WriteAt(buf[:], 0)
			}
			RunCase(c, pi, i)
			if c.Rec.Stop() {
				return
			}
		}
	}
	// The first cases of every phase ran in a young process; run them once more now that the process has seen
	// everything else (whatever the library keeps process-wide - memos, pools, caches, lazily initialised
	// tables - is in a different state), in reverse order and each right after two forced garbage collections.
	// The same oracles judge them.
	for pi := len(p.Phases) - 1; pi >= 0; pi-- {
		ph := &p.Phases[pi]
		if ph.Solo || p.Race {
			continue
		}
		n := ph.N(c.Thorough)
		var mine []int
		for i := 0; i < n && len(mine) < 25; i++ {
			if shardOf(i, c.NShards) == c.Shard {
				mine = append(mine, i)
			}
		}
		for k := len(mine) - 1; k >= 0; k-- {
			runtime.GC() // twice, so that whatever sits in a sync.Pool or behind a finalizer or weak reference is gone
			runtime.GC()
			RunCase(c, pi, mine[k])
			c.Rec.Count("cases_run_again_at_the_end_of_the_process", 1)
			if c.Rec.Stop() {
				return
			}
		}
	}
	// Last of all, the program changes its mind about a process-wide setting of the width library the tabular
	// packages measure with (go-runewidth's documented switch for East Asian terminals, which makes "ambiguous"
	// characters such as the degree sign, e-acute, Greek and Cyrillic two cells wide), after everything above
	// has run with it off, and the first cases of every phase run once more.  The library's own measure
	// (length.StringCells, which every oracle here uses) follows the switch; whatever the library lays out
	// must follow it too.
	if p.Race {
		return
	}
	// A process-wide setting of the Go runtime first: the program confines itself to one processor
	// (runtime.GOMAXPROCS(1), which is also what a one-CPU container gives a program from the start), and the
	// first cases of every phase run once more; then the setting goes back to what it was.
	oldProcs := runtime.GOMAXPROCS(1)
	c.Rec.SetEnv(EnvOneProc)
	for pi := range p.Phases {
		ph := &p.Phases[pi]
		if ph.Solo {
			continue
		}
		n := ph.N(c.Thorough)
		done := 0
		for i := 0; i < n && done < 10; i++ {
			if shardOf(i, c.NShards) != c.Shard {
				continue
			}
			done++
			RunCase(c, pi, i)
			c.Rec.Count("cases_run_again_with_GOMAXPROCS_set_to_1", 1)
			if c.Rec.Stop() {
				return
			}
		}
	}
	runtime.GOMAXPROCS(oldProcs)
	c.Rec.SetEnv("")
	if p.NoWidthSwitch {
		return
	}
	SwitchEastAsianWidth(c)
	for pi := range p.Phases {
		ph := &p.Phases[pi]
		if ph.Solo {
			continue
		}
		n := ph.N(c.Thorough)
		done := 0
		for i := 0; i < n && done < 25; i++ {
			if shardOf(i, c.NShards) != c.Shard {
				continue
			}
			done++
			RunCase(c, pi, i)
			c.Rec.Count("cases_run_again_after_the_width_library_was_switched_to_east_asian_widths", 1)
			if c.Rec.Stop() {
				return
			}
		}
	}
}

// EnvOneProc names the pass during which the process runs with runtime.GOMAXPROCS(1).
const EnvOneProc = "runtime.GOMAXPROCS(1) set in mid-process"

// EnvEastAsian is the name of the setting SwitchEastAsianWidth puts in force.
const EnvEastAsian = "go-runewidth DefaultCondition.EastAsianWidth switched on in mid-process"

// SwitchEastAsianWidth flips the width library's process-wide condition.
func SwitchEastAsianWidth(c *Ctx) {
	runewidth.DefaultCondition.EastAsianWidth = true
	c.Rec.SetEnv(EnvEastAsian)
}

// keptString is a string the library returned earlier in the case, with a private copy of what it read then.
type keptString struct {
	s, copy, what string
}

// Keep remembers a string the library returned; when the case is over (and whatever the case did afterwards
// through the same wrappers and tables is done) it must still read what it read when it was returned: a Go
// string is a value, and a Render result the caller holds is not the renderer's scratch space.
func (c *Ctx) Keep(s, what string) string {
	if len(c.kept) < 64 {
		c.kept = append(c.kept, keptString{s, strings.Clone(s), what})
	}
	return s
}

func (c *Ctx) checkKept() {
	for _, k := range c.kept {
		c.Rec.Count("returned_strings_read_again_at_the_end_of_the_case", 1)
		if k.s != k.copy {
			c.Rec.Violate("returned-string-changed-later", fmt.Sprintf("the string returned by %s read %q when it was returned; after the later operations of the case the very same string value reads %q", k.what, k.copy, k.s), c.Case)
			break
		}
	}
	c.kept = c.kept[:0]
}

// RunCase runs one case under the panic guard.
// ---- CPU guard: a case that does not return
//
// A wall-clock deadline says nothing on a loaded machine, so the shard watchdog's firing is INCONCLUSIVE.  The CPU
// time this process has itself consumed inside ONE case is another matter: it does not depend on what else the
// machine is doing.  Cases take milliseconds to a few seconds of CPU; one that has burnt caseCPUBudget (several
// minutes) of it without finishing is a render (or a building call) that does not return - reported as a
// violation of the property under check with the goroutine dump, not as a timeout.

var (
	guardSeq      atomic.Int64 // odd while a case runs
	guardStartCPU atomic.Int64
	guardPhase    atomic.Int64
	guardIndex    atomic.Int64
)

func cpuMillis() int64 {
	var ru syscall.Rusage
	if syscall.Getrusage(syscall.RUSAGE_SELF, &ru) != nil {
		return 0
	}
	return (int64(ru.Utime.Sec)+int64(ru.Stime.Sec))*1000 + (int64(ru.Utime.Usec)+int64(ru.Stime.Usec))/1000
}

// CaseCPUBudget is the CPU time (milliseconds) one case may consume (VERIF_CASE_CPU_SECONDS overrides).
func CaseCPUBudget() int64 {
	if v, err := strconv.Atoi(os.Getenv("VERIF_CASE_CPU_SECONDS")); err == nil && v > 0 {
		return int64(v) * 1000
	}
	return 240 * 1000
}

// StartCPUGuard starts the watcher; onSpin is called (once, from the watcher's goroutine) after the violation has
// been recorded: it has to save what the process has found and end the process, since the case never will.
// Two conditions are watched: a case that burns CPU without end, and a case in which nothing runs any more.
// externalWaits counts the calls currently waiting for a child process (whose CPU time is not this process's).
var externalWaits atomic.Int32

// waitingForChild runs f, which waits for a child process, and tells the guard so.
func waitingForChild(f func()) {
	externalWaits.Add(1)
	defer externalWaits.Add(-1)
	f()
}

// idleLimit: a case that is unfinished while this process has consumed next to no CPU for this long (and is not
// waiting for a child process) has every goroutine blocked - renders that wait for each other.  Wall-clock time is
// used here only to measure how long NOTHING has run: a process that is merely slow because the machine is busy
// still accumulates CPU time.
const idleLimit = 180 * time.Second

func StartCPUGuard(c *Ctx, onSpin func()) {
	budget := CaseCPUBudget()
	if c.Prop.Race {
		budget *= 3 // many goroutines (and the detector itself) burn CPU side by side there
	}
	go func() {
		var (
			watched   int64 = -1
			lastTick  int64
			tickCPU   int64 // CPU consumed by the process when the monitors last recorded something
			idleSince time.Time
			idleCPU   int64
		)
		report := func(what string, used int64) {
			pi, i := int(guardPhase.Load()), int(guardIndex.Load())
			buf := make([]byte, 1<<20)
			n := runtime.Stack(buf, true)
			name := ""
			if pi >= 0 && pi < len(c.Prop.Phases) {
				name = c.Prop.Phases[pi].Name
			}
			c.Rec.ViolateStack("case-does-not-return", fmt.Sprintf("phase %q case %d %s: a call into the library does not return; the goroutine dump shows where it is (no complete output and no error is a violation of %s; also C09)", name, i, fmt.Sprintf(what, used/1000), c.Prop.ID), c.Case, string(buf[:n]))
			onSpin()
		}
		for {
			time.Sleep(200 * time.Millisecond)
			seq := guardSeq.Load()
			if seq%2 == 0 {
				watched = -1
				continue
			}
			now, cpu, ticks := time.Now(), cpuMillis(), ev.Ticks.Load()
			if seq != watched || ticks != lastTick {
				// the case has just begun, or its monitors have recorded something since we last looked: it is alive
				watched, lastTick, tickCPU, idleSince, idleCPU = seq, ticks, cpu, now, cpu
			}
			if externalWaits.Load() > 0 || cpu-idleCPU > 500 {
				idleSince, idleCPU = now, cpu
			}
			if guardSeq.Load() != seq {
				continue
			}
			if used := cpu - tickCPU; used > budget {
				report("has consumed %d CPU-seconds of this process since its monitors last recorded anything (they record after nearly every call into the library, and no single call of this check takes more than a few seconds of CPU)", used)
				return
			}
			if now.Sub(idleSince) > idleLimit {
				report("has not finished, and since its monitors last recorded anything ("+idleLimit.String()+" ago or more) the process, which is not waiting for any child process, has consumed less than half a CPU-second (%d CPU-seconds in all since then): every goroutine is blocked", cpu-tickCPU)
				return
			}
		}
	}()
}

func RunCase(c *Ctx, pi, i int) {
	ph := &c.Prop.Phases[pi]
	c.Rec.At(pi, i)
	guardPhase.Store(int64(pi))
	guardIndex.Store(int64(i))
	startCPU := cpuMillis()
	guardStartCPU.Store(startCPU)
	guardSeq.Add(1)
	defer func() {
		guardSeq.Add(1)
		c.Rec.Max("max:cpu_milliseconds_consumed_by_one_case", cpuMillis()-startCPU)
	}()
	c.Case = nil
	destDir = c.OutDir
	r := gen.NewR(c.Seed, c.Prop.ID, pi, i)
	defer func() {
		if x := recover(); x != nil {
			st := string(debug.Stack())
			site := PanicSite(st)
			c.Rec.ViolateStack("panic@"+site, fmt.Sprintf("panic escaped the library during phase %q case %d: %v (a panic on an in-domain input is a violation of %s; also C09)", ph.Name, i, x, c.Prop.ID), c.Case, st)
		}
	}()
	c.kept = c.kept[:0]
	ph.Run(c, i, r)
	c.checkKept()
}

// PanicSite extracts the innermost go.pennock.tech/tabular function from a stack dump.
func PanicSite(stack string) string {
	lines := strings.Split(stack, "\n")
	seenPanic := false
	for _, l := range lines {
		if strings.HasPrefix(l, "panic(") {
			seenPanic = true
			continue
		}
		if !seenPanic {
			continue
		}
		if strings.HasPrefix(l, "go.pennock.tech/tabular") {
			if i := strings.LastIndexByte(l, '('); i > 0 {
				l = l[:i]
			}
			return strings.TrimPrefix(l, "go.pennock.tech/")
		}
	}
	// no library frame: report the first non-runtime frame after panic
	seenPanic = false
	for _, l := range lines {
		if strings.HasPrefix(l, "panic(") {
			seenPanic = true
			continue
		}
		if seenPanic && !strings.HasPrefix(l, "\t") && !strings.HasPrefix(l, "runtime") && l != "" {
			if i := strings.LastIndexByte(l, '('); i > 0 {
				l = l[:i]
			}
			return l
		}
	}
	return "unknown"
}

// Guard runs f and converts a panic into a returned description (used by
// checks which must keep going after a panic, or which expect none).
func Guard(f func()) (panicked bool, val interface{}, stack string) {
	defer func() {
		if x := recover(); x != nil {
			panicked, val, stack = true, x, string(debug.Stack())
		}
	}()
	f()
	return
}
