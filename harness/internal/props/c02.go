package props

import (
	"fmt"
	"math"

	"go.pennock.tech/tabular"

	"verifharness/internal/gen"
)

// C02 - row/column counts, row order and cell addressing follow the build history.
//
// Monitor: after EVERY operation of a history the full observable state of
// the real table is compared with a reference table model.  Cells carry a
// unique integer id as their item, so a lookup result names the cell it found.

type c02Row struct {
	sep      bool
	cells    []int // unique ids
	handle   *tabular.Row
	attached bool
}

type c02Model struct {
	t            *tabular.ATable
	hasHeader    bool
	header       []int
	everHeader   int       // widest header ever set
	rows         []*c02Row // attached, in order
	held         []*c02Row // not yet attached
	lastAttached *c02Row   // most recent attached non-separator row whose handle the caller holds
	nextID       int
	log          []string
	copyMode     bool
	cbMode       bool // do-nothing callbacks get registered (through the table) on rows as they are made, attached or not
	cbsRegd      int
	cbsRun       int
	donor        *tabular.ATable
	copies       int
	keptLists    [][]*tabular.Row
	refused      int
	looks        int
}

func (m *c02Model) id() int { m.nextID++; return m.nextID }

// cell returns the cell a Row.Add operation hands over, and the id of the item it holds.  Normally a fresh
// NewCell of a fresh id; in copy mode every third one is a by-value copy of a cell that already sits in an
// attached row (taken through CellAt or Cells()): a Cell is a value, and a copy of a placed cell is as good an
// argument to Row.Add as a new one.
func (m *c02Model) cell() (tabular.Cell, int) {
	id := m.id()
	if m.copyMode && id%3 == 0 {
		for ri, r := range m.rows {
			if r.sep || len(r.cells) == 0 {
				continue
			}
			k := id % len(r.cells)
			if id%2 == 0 {
				if p, err := m.t.CellAt(tabular.CellLocation{Row: ri + 1, Column: k + 1}); err == nil {
					m.log = append(m.log, fmt.Sprintf("  (the cell added next is a by-value copy of *CellAt(%d,%d))", ri+1, k+1))
					m.copies++
					return *p, r.cells[k]
				}
			} else if all := m.t.AllRows(); ri < len(all) && k < len(all[ri].Cells()) {
				m.log = append(m.log, fmt.Sprintf("  (the cell added next is a by-value copy of AllRows()[%d].Cells()[%d])", ri, k))
				m.copies++
				return all[ri].Cells()[k], r.cells[k]
			}
		}
	}
	return tabular.NewCell(c02ItemOf(id)), id
}

// c02ItemOf is the item standing for id: mostly the number itself; every few ids a value of a type that ALSO has
// methods of interfaces which are none of a cell's business (the library's own dormant Fielder / AnonFielder, its
// PropertyOwner / ErrorSource, the method names of Cell and Row, encoding interfaces).  One item is one cell.
func c02ItemOf(id int) interface{} {
	tag := fmt.Sprintf("item %d", id)
	switch id % 11 {
	case 3:
		return gen.FielderItem{ID: tag}
	case 5:
		return gen.OwnerItem{ID: tag}
	case 7:
		return gen.CellishItem{ID: tag}
	case 9:
		return gen.BothMarshal{ID: tag}
	}
	return id
}

func (m *c02Model) ids(k int) ([]int, []interface{}) {
	a := make([]int, k)
	b := make([]interface{}, k)
	for i := range a {
		a[i] = m.id()
		b[i] = c02ItemOf(a[i])
	}
	return a, b
}

// op kinds
const (
	c02AddHeaders = iota
	c02AddRowItems
	c02AddSeparator
	c02AppendNewRow
	c02AddOnLast    // Add one cell to the most recent attached row handle
	c02NewRowHold   // create an unattached row (k cells), keep it
	c02AddOnHeld    // Add one cell to a held (unattached) row
	c02AttachHeld   // AddRow(held row)
	c02AddOnAnyRow  // Add one cell to a random attached non-separator row
	c02NewSizedHold // NewRowSizedFor, keep unattached
	c02NKinds
)

type c02Op struct {
	kind int
	k    int // cell count / index selector
}

func (o c02Op) String() string {
	switch o.kind {
	case c02AddHeaders:
		return fmt.Sprintf("AddHeaders(%d items)", o.k)
	case c02AddRowItems:
		return fmt.Sprintf("AddRowItems(%d items)", o.k)
	case c02AddSeparator:
		return "AddSeparator()"
	case c02AppendNewRow:
		return "AppendNewRow()"
	case c02AddOnLast:
		return "lastAttachedRow.Add(cell)"
	case c02NewRowHold:
		return fmt.Sprintf("hold NewRow()+%d cells", o.k)
	case c02AddOnHeld:
		return fmt.Sprintf("held[%d].Add(cell)", o.k)
	case c02AttachHeld:
		return fmt.Sprintf("AddRow(held[%d])", o.k)
	case c02AddOnAnyRow:
		return fmt.Sprintf("attachedRow[%d].Add(cell)", o.k)
	case c02NewSizedHold:
		return fmt.Sprintf("hold NewRowSizedFor()+%d cells", o.k)
	}
	return "?"
}

// bystander registers, in callback mode, a callback that does nothing but count on a row the program has just made
// (most of the time; the table itself gets one now and then): what an application registers to watch its rows
// being filled has no say in the shape of the table, whether the row is in the table yet or not.
func (m *c02Model) bystander(h *tabular.Row, sel int) {
	if !m.cbMode || (m.nextID+sel)%4 == 3 {
		return
	}
	n := m.nextID + sel
	when := cbTimes[n%len(cbTimes)]
	cb := cbFunc(func(tabular.PropertyOwner) error { m.cbsRun++; return nil })
	ti := (n / 4) % len(cbTargets)
	target := cbTargetNames[ti]
	err := m.t.RegisterPropertyCallback(h, when, cbTargets[ti], cb)
	m.cbsRegd++
	m.log = append(m.log, fmt.Sprintf("  (on the row made next: table.RegisterPropertyCallback(row, %s, %s, a callback that only counts) -> %v)", cbTimeNames[n%len(cbTimes)], target, err))
	if n%7 == 0 {
		err = m.t.RegisterPropertyCallback(m.t, when, tabular.CB_ON_ROW, cb)
		m.log = append(m.log, fmt.Sprintf("  (and table.RegisterPropertyCallback(table, %s, ON_ROW, the same) -> %v)", cbTimeNames[n%len(cbTimes)], err))
	}
}

func (m *c02Model) apply(o c02Op) {
	t := m.t
	m.log = append(m.log, o.String())
	switch o.kind {
	case c02AddHeaders:
		a, b := m.ids(o.k)
		t.AddHeaders(b...)
		m.hasHeader, m.header = true, a
		if o.k > m.everHeader {
			m.everHeader = o.k
		}
	case c02AddRowItems:
		a, b := m.ids(o.k)
		t.AddRowItems(b...)
		m.rows = append(m.rows, &c02Row{cells: a, attached: true})
	case c02AddSeparator:
		t.AddSeparator()
		m.rows = append(m.rows, &c02Row{sep: true, attached: true})
	case c02AppendNewRow:
		h := t.AppendNewRow()
		m.bystander(h, len(m.rows))
		r := &c02Row{cells: []int{}, handle: h, attached: true}
		m.rows = append(m.rows, r)
		m.lastAttached = r
	case c02AddOnLast:
		if m.lastAttached == nil {
			return
		}
		cell, id := m.cell()
		m.lastAttached.handle.Add(cell)
		m.lastAttached.cells = append(m.lastAttached.cells, id)
	case c02NewRowHold, c02NewSizedHold:
		var h *tabular.Row
		if o.kind == c02NewSizedHold {
			h = t.NewRowSizedFor()
			if m.copyMode && o.k%2 == 1 {
				// a row cut to size for ANOTHER, wider table and then used here: NewRowSizedFor only pre-sizes a row
				if m.donor == nil {
					m.donor = tabular.New()
					m.donor.AddHeaders("d1", "d2", "d3", "d4", "d5", "d6", "d7")
				}
				h = m.donor.NewRowSizedFor()
				m.log = append(m.log, "  (the row held next was made by NewRowSizedFor of another table, 7 columns wide)")
			}
		} else if o.k%2 == 0 {
			h = tabular.NewRow()
		} else {
			h = tabular.NewRowWithCapacity(o.k / 2)
		}
		m.bystander(h, o.k)
		r := &c02Row{cells: []int{}, handle: h}
		for i := 0; i < o.k; i++ {
			cell, id := m.cell()
			h.Add(cell)
			r.cells = append(r.cells, id)
		}
		m.held = append(m.held, r)
	case c02AddOnHeld:
		if len(m.held) == 0 {
			return
		}
		r := m.held[o.k%len(m.held)]
		cell, id := m.cell()
		r.handle.Add(cell)
		r.cells = append(r.cells, id)
	case c02AttachHeld:
		if len(m.held) == 0 {
			return
		}
		i := o.k % len(m.held)
		r := m.held[i]
		m.held = append(m.held[:i], m.held[i+1:]...)
		t.AddRow(r.handle)
		r.attached = true
		m.rows = append(m.rows, r)
		m.lastAttached = r
	case c02AddOnAnyRow:
		if o.k%5 == 4 {
			// a cell offered to a SEPARATOR row (taken from AllRows): the add is refused (and recorded as an error, which
			// is C11's business) - a refused building call leaves the shape of the table alone
			for _, r := range m.rows {
				if r.sep && r.handle != nil {
					m.log = append(m.log, "  (separatorRow.Add(cell): refused)")
					r.handle.Add(tabular.NewCell(m.id()))
					m.refused++
					return
				}
			}
		}
		var cand []*c02Row
		for _, r := range m.rows {
			if !r.sep && r.handle != nil {
				cand = append(cand, r)
			}
		}
		if len(cand) == 0 {
			return
		}
		r := cand[o.k%len(cand)]
		cell, id := m.cell()
		r.handle.Add(cell)
		r.cells = append(r.cells, id)
	}
}

// firstLook makes the FIRST observation after an operation a different one each time: every accessor must be
// right when it is the first to look - not only after NColumns() or a render had a chance to settle things.
func (m *c02Model) firstLook(c *Ctx) (string, string) {
	t := m.t
	m.looks++
	maxRow := 0
	lastRow, lastLen := -1, 0
	for i, r := range m.rows {
		if len(r.cells) > maxRow {
			maxRow = len(r.cells)
		}
		if !r.sep && len(r.cells) > 0 {
			lastRow, lastLen = i, len(r.cells)
		}
	}
	width := maxRow
	if m.hasHeader && len(m.header) > width {
		width = len(m.header)
	}
	exact := m.everHeader <= width // otherwise a wider header was replaced and the count may legitimately be larger
	switch m.looks % 5 {
	case 1:
		c.Rec.Count("first_looks_through_Column", 1)
		if t.Column(width) == nil {
			return "first-look:Column-existence", fmt.Sprintf("the first look at the table after the operation: Column(%d) is nil although the header or a row has %d cells", width, width)
		}
		if exact && t.Column(width+1) != nil {
			return "first-look:Column-existence", fmt.Sprintf("the first look at the table after the operation: Column(%d) exists although no header or row ever had more than %d cells", width+1, width)
		}
	case 2:
		if lastRow >= 0 {
			c.Rec.Count("first_looks_through_CellAt", 1)
			loc := tabular.CellLocation{Row: lastRow + 1, Column: lastLen}
			p, err := t.CellAt(loc)
			if err != nil || p == nil {
				return "first-look:CellAt", fmt.Sprintf("the first look at the table after the operation: CellAt(%+v) fails with %v", loc, err)
			}
			if got := p.Location(); got != loc {
				return "first-look:Location", fmt.Sprintf("the first look at the table after the operation: the cell at %+v reports location %+v", loc, got)
			}
		}
	case 3:
		c.Rec.Count("first_looks_through_AllRows", 1)
		if rows := t.AllRows(); len(rows) != len(m.rows) {
			return "first-look:AllRows-length", fmt.Sprintf("the first look at the table after the operation: AllRows() has %d rows, model %d", len(rows), len(m.rows))
		}
	case 4:
		c.Rec.Count("first_looks_through_Headers", 1)
		if h := t.Headers(); m.hasHeader && len(h) != len(m.header) {
			return "first-look:Headers", fmt.Sprintf("the first look at the table after the operation: Headers() has %d cells, model %d", len(h), len(m.header))
		}
	}
	return "", ""
}

// check compares the whole observable state with the model.  It returns the
// first discrepancy (key, message) or "".
func (m *c02Model) check(c *Ctx) (string, string) {
	t := m.t
	c.Rec.Count("state_comparisons", 1)
	if k, msg := m.firstLook(c); k != "" {
		return k, msg
	}
	if got := t.NRows(); got != len(m.rows) {
		return "NRows", fmt.Sprintf("NRows()=%d, model has %d rows", got, len(m.rows))
	}
	maxRow := 0
	for _, r := range m.rows {
		if len(r.cells) > maxRow {
			maxRow = len(r.cells)
		}
	}
	lo, hi := maxRow, maxRow
	if m.hasHeader && len(m.header) > lo {
		lo = len(m.header)
	}
	if m.everHeader > hi {
		hi = m.everHeader
	}
	nc := t.NColumns()
	if nc < lo || nc > hi {
		return "NColumns", fmt.Sprintf("NColumns()=%d, but the largest number of cells in the header or any attached row is %d (accepted interval [%d,%d]; the upper end only differs when a wider header was replaced)", nc, lo, lo, hi)
	}
	for n := -2; n <= nc+2; n++ {
		col := t.Column(n)
		if (col != nil) != (n >= 0 && n <= nc) {
			return "Column-existence", fmt.Sprintf("Column(%d) nil=%v with NColumns()=%d", n, col == nil, nc)
		}
	}
	// headers
	h := t.Headers()
	if !m.hasHeader {
		if h != nil {
			return "Headers", fmt.Sprintf("Headers() has %d cells but no header was set", len(h))
		}
	} else {
		if len(h) != len(m.header) {
			return "Headers", fmt.Sprintf("Headers() has %d cells, model %d", len(h), len(m.header))
		}
		for i := range h {
			if h[i].Item() != c02ItemOf(m.header[i]) {
				return "Headers", fmt.Sprintf("Headers()[%d].Item()=%v, model id %d", i, h[i].Item(), m.header[i])
			}
		}
	}
	// every list the table ever handed out stays the caller's: the lists taken at earlier steps (the first of them
	// while the table was still empty) are appended to and overwritten now, and the table must not notice
	foreign := tabular.NewRow()
	for k := range m.keptLists {
		l := m.keptLists[k]
		l = append(l, foreign, foreign, foreign)
		for i := range l {
			l[i] = foreign
		}
		m.keptLists[k] = l[:0]
	}
	if len(m.keptLists) < 4 {
		m.keptLists = append(m.keptLists, t.AllRows())
	}
	for pass := 0; pass < 2; pass++ {
		rows := t.AllRows()
		if len(rows) != len(m.rows) {
			return "AllRows-length", fmt.Sprintf("AllRows() has %d rows, model %d (pass %d: after the caller scribbled over the previous AllRows() result)", len(rows), len(m.rows), pass)
		}
		for i, mr := range m.rows {
			if mr.handle == nil {
				mr.handle = rows[i] // first sight of a row created by AddRowItems/AddSeparator; checked for stability from now on
			}
			if rows[i] != mr.handle {
				return "AllRows-order", fmt.Sprintf("AllRows()[%d] is not the row inserted %d-th (pass %d)", i, i+1, pass)
			}
		}
		if pass == 0 {
			// scribble over the slice handed to us: must not affect the table
			for i, j := 0, len(rows)-1; i < j; i, j = i+1, j-1 {
				rows[i], rows[j] = rows[j], rows[i]
			}
			for i := range rows {
				if i%2 == 0 {
					rows[i] = nil
				}
			}
			rows = rows[:0]
			_ = append(rows, nil, nil)
			c.Rec.Count("allrows_copies_scribbled", 1)
		}
	}
	for i, mr := range m.rows {
		p := i + 1
		hnd := mr.handle
		if hnd.IsSeparator() != mr.sep {
			return "IsSeparator", fmt.Sprintf("row %d IsSeparator()=%v, model %v", p, hnd.IsSeparator(), mr.sep)
		}
		if (hnd.Cells() == nil) != mr.sep {
			return "Cells-nil-iff-separator", fmt.Sprintf("row %d Cells()==nil is %v, separator is %v", p, hnd.Cells() == nil, mr.sep)
		}
		if loc := hnd.Location(); loc.Row != p || loc.Column != 0 {
			return "Row.Location", fmt.Sprintf("row inserted %d-th reports Location()=%+v", p, loc)
		}
		if !mr.sep && len(hnd.Cells()) != len(mr.cells) {
			return "Cells-length", fmt.Sprintf("row %d has %d cells, model %d", p, len(hnd.Cells()), len(mr.cells))
		}
		for col := -1; col <= hi+2; col++ {
			loc := tabular.CellLocation{Row: p, Column: col}
			cell, err := t.CellAt(loc)
			c.Rec.Count("cellat_lookups", 1)
			valid := !mr.sep && col >= 1 && col <= len(mr.cells)
			if valid {
				if err != nil || cell == nil {
					return "CellAt-missing", fmt.Sprintf("CellAt(%+v) failed (%v) but the model has cell id %d there", loc, err, mr.cells[col-1])
				}
				if cell.Item() != c02ItemOf(mr.cells[col-1]) {
					return "CellAt-wrong-cell", fmt.Sprintf("CellAt(%+v) returned the cell holding %v, model expects id %d", loc, cell.Item(), mr.cells[col-1])
				}
				if got := cell.Location(); got != loc {
					return "Cell.Location", fmt.Sprintf("cell found at %+v reports Location()=%+v", loc, got)
				}
				if got := hnd.Cells()[col-1].Location(); got != loc {
					return "Cell.Location", fmt.Sprintf("row %d Cells()[%d].Location()=%+v", p, col-1, got)
				}
			} else {
				if err == nil {
					return "CellAt-should-fail", fmt.Sprintf("CellAt(%+v) succeeded (item %v) but there is no such cell (row has %d cells, separator=%v)", loc, cell.Item(), len(mr.cells), mr.sep)
				}
				nsc, ok := err.(tabular.NoSuchCellError)
				if !ok {
					return "CellAt-error-type", fmt.Sprintf("CellAt(%+v) error is %T, not NoSuchCellError", loc, err)
				}
				if nsc.Location != loc {
					return "CellAt-error-location", fmt.Sprintf("CellAt(%+v) error carries location %+v", loc, nsc.Location)
				}
				if cell != nil {
					return "CellAt-error-with-cell", fmt.Sprintf("CellAt(%+v) returned both a cell and an error", loc)
				}
			}
		}
	}
	// coordinates far away - a valid one displaced by a power of two (whatever width a lookup might compute in), the
	// ends of the integer range: there is no such cell
	if nr := len(m.rows); nr > 0 {
		m.looks++
		base := tabular.CellLocation{Row: 1 + m.looks%nr, Column: 1}
		for _, sh := range []uint{8, 16, 31, 32, 33, 48, 62} {
			for _, sign := range []int{1, -1} {
				d := sign * (1 << sh)
				for _, loc := range []tabular.CellLocation{{Row: base.Row + d, Column: base.Column}, {Row: base.Row, Column: base.Column + d}, {Row: base.Row + d, Column: base.Column + d}} {
					cell, err := t.CellAt(loc)
					c.Rec.Count("cellat_lookups_far_outside_the_table", 1)
					if err == nil || cell != nil {
						return "CellAt-should-fail:far-away", fmt.Sprintf("CellAt(%+v) succeeded; the table has %d rows", loc, nr)
					}
				}
			}
		}
		for _, loc := range []tabular.CellLocation{{Row: math.MaxInt64, Column: 1}, {Row: math.MinInt64, Column: 1}, {Row: 1, Column: math.MaxInt64}, {Row: 1, Column: math.MinInt64}, {Row: math.MaxInt32 + 2, Column: 1}, {Row: 1, Column: math.MaxUint32 + 2}} {
			if cell, err := t.CellAt(loc); err == nil || cell != nil {
				return "CellAt-should-fail:far-away", fmt.Sprintf("CellAt(%+v) succeeded; the table has %d rows", loc, nr)
			}
		}
	}
	for _, rr := range []int{-1, 0, len(m.rows) + 1, len(m.rows) + 2} {
		for col := 0; col <= 2; col++ {
			loc := tabular.CellLocation{Row: rr, Column: col}
			cell, err := t.CellAt(loc)
			c.Rec.Count("cellat_lookups", 1)
			if err == nil || cell != nil {
				return "CellAt-should-fail", fmt.Sprintf("CellAt(%+v) succeeded with %d rows", loc, len(m.rows))
			}
			if nsc, ok := err.(tabular.NoSuchCellError); !ok || nsc.Location != loc {
				return "CellAt-error-location", fmt.Sprintf("CellAt(%+v) error %v (%T)", loc, err, err)
			}
		}
	}
	// unattached rows keep their cells in order
	for _, hr := range m.held {
		cells := hr.handle.Cells()
		if len(cells) != len(hr.cells) {
			return "held-row-cells", fmt.Sprintf("unattached row has %d cells, model %d", len(cells), len(hr.cells))
		}
		for i := range cells {
			if cells[i].Item() != c02ItemOf(hr.cells[i]) {
				return "held-row-cells", fmt.Sprintf("unattached row cell %d holds %v, model id %d", i, cells[i].Item(), hr.cells[i])
			}
		}
	}
	return "", ""
}

func c02Run(c *Ctx, ops []c02Op, sample bool) { c02RunMode(c, ops, sample, false) }

func c02RunMode(c *Ctx, ops []c02Op, sample, copyMode bool) {
	c02RunModes(c, ops, sample, copyMode, false)
}

func c02RunModes(c *Ctx, ops []c02Op, sample, copyMode, cbMode bool) {
	m := &c02Model{t: tabular.New(), copyMode: copyMode, cbMode: cbMode}
	defer func() {
		c.Rec.Count("do-nothing_callbacks_registered_on_rows_being_built", int64(m.cbsRegd))
		c.Rec.Count("do-nothing_callbacks_invocations", int64(m.cbsRun))
		c.Rec.Count("cells_added_that_were_by-value_copies_of_placed_cells", int64(m.copies))
		c.Rec.Count("cells_offered_to_separator_rows(refused)", int64(m.refused))
	}()
	desc := map[string]interface{}{}
	c.Case = desc
	if k, msg := m.check(c); k != "" {
		c.Rec.Violate("empty-table:"+k, msg, desc)
		return
	}
	post := false
	for i, o := range ops {
		m.apply(o)
		desc["history"] = m.log
		desc["failed_after_step"] = i + 1
		if o.kind == c02AddOnLast || o.kind == c02AddOnAnyRow {
			post = true
		}
		if k, msg := m.check(c); k != "" {
			cls := "history"
			if post {
				cls = "history-with-Add-after-attach"
			}
			c.Rec.Violate(k+":"+cls, fmt.Sprintf("after step %d (%s): %s", i+1, o, msg), desc)
			return
		}
	}
	delete(desc, "failed_after_step")
	if sample && c.Rec.WantSample() {
		c.Rec.Sample(map[string]interface{}{"history": m.log})
	}
	c.Rec.Count("steps", int64(len(ops)))
}

// reduced alphabet for the exhaustive phase
var c02ExhOps = []c02Op{
	{c02AddHeaders, 0}, {c02AddHeaders, 2}, {c02AddHeaders, 1},
	{c02AddRowItems, 0}, {c02AddRowItems, 1}, {c02AddRowItems, 3},
	{c02AddSeparator, 0}, {c02AppendNewRow, 0}, {c02AddOnLast, 0},
	{c02NewRowHold, 0}, {c02AddOnHeld, 0}, {c02AttachHeld, 0},
}

func c02SeqCount(base, maxLen int) int {
	n, p := 0, 1
	for l := 0; l <= maxLen; l++ {
		n += p
		p *= base
	}
	return n
}

func c02Decode(i, base int) []int {
	l, p := 0, 1
	for i >= p {
		i -= p
		p *= base
		l++
	}
	seq := make([]int, l)
	for k := l - 1; k >= 0; k-- {
		seq[k] = i % base
		i /= base
	}
	return seq
}

func init() {
	nb := len(c02ExhOps)
	register(&Prop{
		ID:    "C02",
		Level: "exploration",
		Rule: "phase 0 (exhaustive): every history of up to L operations (L=4 quick, L=6 thorough) over a 12-operation alphabet {AddHeaders(0|1|2), AddRowItems(0|1|3), AddSeparator, AppendNewRow, Add on the last attached handle, hold NewRow, Add on a held row, AddRow(held row)}; " +
			"phase 1: random histories of 1-40 operations over all building operations with 0-6 cells, Row.Add before and after attach, headers before/after/between rows and replaced. After EVERY step the whole observable state is compared with the reference model (NRows, NColumns, Column(n) for n in [-2,NColumns+2], Headers, AllRows identity/order before and after scribbling over the returned slice, IsSeparator, Cells, Row.Location, CellAt+Cell.Location over rows [-1,NRows+2] x columns [-1,max+2]). " +
			"Distinct = distinct operation sequences; non-trivial = at least 2 operations.",
		Assumptions: []string{
			"a *Row is attached to at most one table at most once",
			"when a wider header has been replaced by a narrower one, NColumns may be anything between the live maximum and the historical maximum (the statement says 'the header')",
			"row number of header cells and Location of unattached rows are not asserted",
		},
		Phases: []Phase{
			{Name: "all histories up to length L over 12 operations", Exhaustive: true,
				N: func(th bool) int {
					if th {
						return c02SeqCount(nb, 6)
					}
					return c02SeqCount(nb, 4)
				},
				Run: func(c *Ctx, i int, r *gen.R) {
					seq := c02Decode(i, nb)
					ops := make([]c02Op, len(seq))
					for k, s := range seq {
						ops[k] = c02ExhOps[s]
					}
					c.Rec.Eval(gen.Hash64("exh", fmt.Sprint(seq)), len(seq) >= 2)
					c02Run(c, ops, len(seq) == 4 && i%1000 == 7)
				}},
			{Name: "random histories of 1-40 operations", N: Fixed(3000, 300000),
				Run: func(c *Ctx, i int, r *gen.R) {
					n := r.Range(1, 40)
					ops := make([]c02Op, n)
					for k := range ops {
						kind := r.Intn(c02NKinds)
						if r.Chance(1, 4) {
							kind = Pick3(r, c02AddOnLast, c02AddOnAnyRow, c02AddRowItems)
						}
						ops[k] = c02Op{kind, r.Range(0, 6)}
						if kind == c02AddHeaders && r.Chance(1, 2) {
							ops[k].k = r.Range(0, 9)
						}
					}
					c.Rec.Eval(gen.Hash64("rnd", fmt.Sprint(ops)), n >= 2)
					c02RunModes(c, ops, true, i%2 == 1, i%4 >= 2)
				}},
		},
	})
}

// Pick3 picks one of three ints.
func Pick3(r *gen.R, a, b, c int) int {
	switch r.Intn(3) {
	case 0:
		return a
	case 1:
		return b
	}
	return c
}
