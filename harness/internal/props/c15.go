package props

import (
	"bufio"
	"bytes"
	"context"
	"errors"
	"fmt"
	"html/template"
	"io"
	"os"
	"os/exec"
	"path/filepath"
	"runtime"
	"strconv"
	"strings"
	"syscall"

	"go.pennock.tech/tabular"
	"go.pennock.tech/tabular/auto"
	"go.pennock.tech/tabular/csv"
	"go.pennock.tech/tabular/html"
	"go.pennock.tech/tabular/json"
	"go.pennock.tech/tabular/markdown"
	"go.pennock.tech/tabular/properties"
	"go.pennock.tech/tabular/texttable"
	"go.pennock.tech/tabular/texttable/decoration"

	"verifharness/internal/gen"
)

// C15 - a failing writer always surfaces as an error and output stops there.
//
// Monitor: a scripted io.Writer which records every call and fails at a chosen
// call index k in one of three modes; for each (table, renderer) EVERY k in
// 1..N is injected (N = number of Write calls of the fault-free run).

var errInjected = errors.New("injected write failure")

const (
	modeFromK      = iota // fails at call k and at every later call
	modeOnlyK             // fails at call k only
	modePartialK          // accepts half of call k's bytes and returns an error; later calls succeed
	modeFullK             // accepts all of call k's bytes and still returns an error (write-then-sync, quota and tee writers do this); later calls succeed
	modeAllButOneK        // accepts all but the last byte of call k and returns an error; later calls fail too
	c15NModes
)

var c15ModeNames = []string{"fails from call k on", "fails only at call k", "partial write with error at call k", "complete write reported together with an error at call k", "all but one byte written at call k, failing from then on"}

// The error a failing destination returns is the destination's business: any non-nil error value is a failure,
// including the ones some code uses as end markers or treats as benign.
type c15AgreeableErr struct{}

func (c15AgreeableErr) Error() string        { return "an error whose Is method says yes to every target" }
func (c15AgreeableErr) Is(target error) bool { return true }

// error values of dynamic types that cannot be hashed or compared: a list of errors, a struct holding a list, and
// one of those wrapped.  An error is something to hand back, not something to look up.
type c15ListErr []error

func (l c15ListErr) Error() string { return fmt.Sprintf("%d errors from the destination", len(l)) }

type c15DetailErr struct {
	op      string
	details []string
}

func (e c15DetailErr) Error() string { return e.op + ": " + strings.Join(e.details, "; ") }

// c15OptCause has an Unwrap method and, this time, nothing to unwrap (the shape of *net.DNSError-like errors with
// an optional cause): it is an error all the same.
type c15OptCause struct {
	Limit int
	Cause error
}

func (e *c15OptCause) Error() string { return fmt.Sprintf("quota of %d bytes exceeded", e.Limit) }
func (e *c15OptCause) Unwrap() error { return e.Cause }

var c15Errs = []error{
	errInjected, io.EOF, fmt.Errorf("connection lost: %w", io.EOF), io.ErrUnexpectedEOF, io.ErrShortWrite, io.ErrClosedPipe,
	os.ErrClosed, context.Canceled, syscall.EPIPE, syscall.EAGAIN, c15AgreeableErr{}, errors.New(""), io.ErrNoProgress,
	c15ListErr{errInjected, io.EOF}, c15DetailErr{"write", []string{"disk full", "quota"}}, fmt.Errorf("flush: %w", c15ListErr{io.ErrShortWrite}),
	&c15OptCause{Limit: 4096}, &c15OptCause{Limit: 1, Cause: io.ErrClosedPipe}, fmt.Errorf("outer: %w", &c15OptCause{Limit: 7}),
}

type scriptWriter struct {
	err      error // what the failing calls return (errInjected when nil)
	k, mode  int
	calls    int
	accepted []byte
	after    int // calls made after the first injected failure
	failed   bool
}

func (w *scriptWriter) Write(p []byte) (int, error) {
	errInjected := w.err
	if errInjected == nil {
		errInjected = c15Errs[0]
	}
	w.calls++
	if w.failed {
		w.after++
	}
	if w.k > 0 {
		switch w.mode {
		case modeFromK:
			if w.calls >= w.k {
				w.failed = true
				return 0, errInjected
			}
		case modeOnlyK:
			if w.calls == w.k {
				w.failed = true
				return 0, errInjected
			}
		case modePartialK:
			if w.calls == w.k {
				w.failed = true
				n := len(p) / 2
				w.accepted = append(w.accepted, p[:n]...)
				return n, errInjected
			}
		case modeFullK:
			if w.calls == w.k {
				w.failed = true
				w.accepted = append(w.accepted, p...)
				return len(p), errInjected
			}
		case modeAllButOneK:
			if w.calls == w.k {
				w.failed = true
				n := len(p) - 1
				if n < 0 {
					n = 0
				}
				w.accepted = append(w.accepted, p[:n]...)
				return n, errInjected
			}
			if w.calls > w.k {
				return 0, errInjected
			}
		}
	}
	w.accepted = append(w.accepted, p...)
	return len(p), nil
}

// scriptStringWriter is a scriptWriter which also implements io.StringWriter, so that io.WriteString
// (and anything else that looks for the method) takes the WriteString route; both routes share one script.
type scriptStringWriter struct{ scriptWriter }

func (w *scriptStringWriter) WriteString(s string) (int, error) {
	return w.scriptWriter.Write([]byte(s))
}

// scriptFlushWriter is a scriptWriter which also offers the optional methods of buffering and file-like destinations,
// all of which succeed: the failure of a Write is not undone by a Flush, Sync or Close that has nothing to report.
type scriptFlushWriter struct{ scriptWriter }

func (w *scriptFlushWriter) Flush() error { return nil }
func (w *scriptFlushWriter) Sync() error  { return nil }
func (w *scriptFlushWriter) Close() error { return nil }

type c15Renderer struct {
	name string
	to   func(t tabular.Table, w io.Writer) error
}

func c15Renderers() []c15Renderer {
	rs := []c15Renderer{
		{"csv", func(t tabular.Table, w io.Writer) error { return csv.Wrap(t).RenderTo(w) }},
		{"json", func(t tabular.Table, w io.Writer) error { return json.Wrap(t).RenderTo(w) }},
		{"markdown", func(t tabular.Table, w io.Writer) error { return markdown.Wrap(t).RenderTo(w) }},
		{"html", func(t tabular.Table, w io.Writer) error { return html.Wrap(t).RenderTo(w) }},
		{"html+class+id+caption+generator", func(t tabular.Table, w io.Writer) error {
			h := html.Wrap(t)
			h.Class, h.Id, h.Caption = "c<l>", "i\"d", "cap & tion"
			h.SetRowClassGenerator(func(n int, _ interface{}) template.HTMLAttr { return template.HTMLAttr(fmt.Sprintf("row%d", n)) }, nil)
			return h.RenderTo(w)
		}},
	}
	// the other entry points: the package-level RenderTo functions and auto.RenderTo
	rs = append(rs,
		c15Renderer{"csv.RenderTo(t,w)", func(t tabular.Table, w io.Writer) error { return csv.RenderTo(t, w) }},
		c15Renderer{"json.RenderTo(t,w)", func(t tabular.Table, w io.Writer) error { return json.RenderTo(t, w) }},
		c15Renderer{"markdown.RenderTo(t,w)", func(t tabular.Table, w io.Writer) error { return markdown.RenderTo(t, w) }},
		c15Renderer{"text:texttable.RenderTo(t,w)", func(t tabular.Table, w io.Writer) error { return texttable.RenderTo(t, w) }},
	)
	for _, style := range []string{"csv", "html", "json", "markdown", "texttable", "utf8-light", "texttable.ascii-simple"} {
		style := style
		name := "auto.RenderTo(t,w," + style + ")"
		if style != "csv" && style != "html" && style != "json" && style != "markdown" {
			name = "text:" + name
		}
		rs = append(rs, c15Renderer{name, func(t tabular.Table, w io.Writer) error { return auto.RenderTo(t, w, style) }})
	}
	for _, name := range decoration.RegisteredDecorationNames() {
		name := name
		rs = append(rs, c15Renderer{"text:" + name, func(t tabular.Table, w io.Writer) error {
			return texttable.Wrap(t).SetDecoration(decoration.Named(name)).RenderTo(w)
		}})
	}
	return rs
}

// c15Tables: tables chosen to reach every write site.
func c15FixedTables() []gen.TableSpec {
	s := gen.StrItem
	return []gen.TableSpec{
		{HasHeader: true, Header: []gen.ItemSpec{s("h1"), s("h2")}, Rows: []gen.RowSpec{{Items: []gen.ItemSpec{s("a"), s("b")}}, {Items: []gen.ItemSpec{s("c"), s("d")}}}},
		{HasHeader: true, Header: []gen.ItemSpec{s("h1"), s("h2"), s("h3")}, Rows: []gen.RowSpec{{Items: []gen.ItemSpec{s("a")}}, {Sep: true}, {Items: []gen.ItemSpec{}}, {Items: []gen.ItemSpec{s("x\ny\nz"), s("w")}}, {Sep: true}}},
		{Rows: []gen.RowSpec{{Items: []gen.ItemSpec{s("no"), s("header")}}, {Sep: true}, {Items: []gen.ItemSpec{s("q")}}}},
		{HasHeader: true, Header: []gen.ItemSpec{s("only header")}},
		{HasHeader: true, Header: []gen.ItemSpec{s("k1"), s("k2")}, Rows: []gen.RowSpec{{Sep: true}, {Items: []gen.ItemSpec{{K: "nil"}, s("")}}, {Items: []gen.ItemSpec{s("v"), {K: "int", Num: 3}}}, {Sep: true}, {Sep: true}}},
		{HasHeader: true, Header: []gen.ItemSpec{s("a"), s("b"), s("c"), s("d")}, HeaderAt: 2, Rows: []gen.RowSpec{{Items: []gen.ItemSpec{s("1"), s("2"), s("3"), s("4")}, Mode: gen.ModeNewRowAdd}, {Items: []gen.ItemSpec{s("1"), s("2")}, Mode: gen.ModeAppendThenAdd}}},
		{},
		{HasHeader: true, Header: []gen.ItemSpec{}},
		c15Tall(),
	}
}

// c15Tall is a table of 70 rows (some of several lines, some separators): every renderer makes far more
// write calls for it than any plausible internal batch size.
func c15Tall() gen.TableSpec {
	s := gen.StrItem
	t := gen.TableSpec{HasHeader: true, Header: []gen.ItemSpec{s("n"), s("text")}}
	for i := 0; i < 70; i++ {
		switch {
		case i%17 == 5:
			t.Rows = append(t.Rows, gen.RowSpec{Sep: true})
		case i%9 == 2:
			t.Rows = append(t.Rows, gen.RowSpec{Items: []gen.ItemSpec{{K: "int", Num: int64(i)}, s("two\nlines")}})
		case i%13 == 7:
			t.Rows = append(t.Rows, gen.RowSpec{Items: []gen.ItemSpec{{K: "int", Num: int64(i)}}})
		default:
			t.Rows = append(t.Rows, gen.RowSpec{Items: []gen.ItemSpec{{K: "int", Num: int64(i)}, s("row")}})
		}
	}
	return t
}

type c15Case struct {
	Table    gen.TableSpec `json:"table"`
	Renderer string        `json:"renderer"`
	K        int           `json:"failing_call_k"`
	Mode     string        `json:"mode"`
	Err      string        `json:"error_value_returned_by_the_writer"`
	N        int           `json:"fault_free_write_calls"`
	Skipable bool          `json:"json_skipable_default"`
	Handle   string        `json:"how_the_table_handed_to_the_renderer_was_made"`
}

func c15Inject(c *Ctx, spec *gen.TableSpec, skipable bool, sample bool) {
	// what the renderer is handed is a table made by any of the creation functions, with or without another
	// wrapper around it (the repository's inspection example renders a table from auto.New in other formats):
	// the property is about the destination, so it holds for every such handle
	paths, wrs := c10Paths(), c10Wrappers
	h := int(gen.Hash64(spec.Shape(), fmt.Sprint(textsOf(spec))) % 1000003)
	for ri, rd := range c15Renderers() {
		path := paths[(h+ri*5)%len(paths)]
		wi := (h/7 + ri*3) % (2 * len(wrs))
		handle := path.name
		if wi < len(wrs) {
			handle = wrs[wi].name + " around a table from " + path.name
		}
		if (h+ri)%3 == 0 {
			path, wi, handle = paths[0], len(wrs), paths[0].name
		}
		build := func() tabular.Table {
			t := path.mk()
			spec.Build(t)
			if skipable {
				t.Column(0).SetProperty(properties.Skipable, true)
			}
			if wi < len(wrs) {
				return wrs[wi].f(t)
			}
			return t
		}
		cs := &c15Case{Table: *spec, Renderer: rd.name, Skipable: skipable, Handle: handle}
		c.Rec.Count("detail:handles:"+handle, 1)
		c.Case = cs
		ref := &scriptWriter{}
		refErr := rd.to(build(), ref)
		n := ref.calls
		cs.N = n
		c.Rec.Count("fault_free_runs", 1)
		c.Rec.Count("detail:write_calls_total:"+formatClass(rd.name), int64(n))
		c.Rec.Max("max:write_calls_in_one_render", int64(n))
		if refErr != nil {
			c.Rec.Count("fault_free_runs_refused_by_renderer", 1)
		}
		// also: Render() must equal what RenderTo wrote
		c.Rec.Eval(gen.Hash64(spec.Shape(), fmt.Sprint(textsOf(spec)), rd.name, fmt.Sprint(skipable)), n > 0)
		for k := 1; k <= n; k++ {
			for mode := 0; mode < 3*c15NModes; mode++ {
				kind := mode / c15NModes // 0: plain io.Writer; 1: a writer that also implements io.StringWriter; 2: one with Flush, Sync and Close methods that succeed
				mode := mode % c15NModes
				if n > 60 && k > 12 && k <= n-4 && !(kind == 0 && (mode == modeOnlyK || mode == modePartialK)) {
					continue // renders of more than 60 writes: the middle calls get two modes through the plain writer, the first 12 and the last 4 everything
				}
				cs.K, cs.Mode = k, c15ModeNames[mode]
				cs.Err = fmt.Sprintf("%T %q", c15Errs[(k*7+mode*3+kind)%len(c15Errs)], c15Errs[(k*7+mode*3+kind)%len(c15Errs)].Error())
				werr := c15Errs[(k*7+mode*3+kind)%len(c15Errs)]
				w := &scriptWriter{k: k, mode: mode, err: werr}
				var dst io.Writer = w
				if kind == 1 {
					sw := &scriptStringWriter{scriptWriter{k: k, mode: mode, err: werr}}
					w, dst = &sw.scriptWriter, sw
					cs.Mode += " (writer also implements io.StringWriter)"
				}
				if kind == 2 {
					fw := &scriptFlushWriter{scriptWriter{k: k, mode: mode, err: werr}}
					w, dst = &fw.scriptWriter, fw
					cs.Mode += " (writer also has Flush, Sync and Close methods, which succeed)"
				}
				var err error
				c.Rec.Count("injections", 1)
				panicked, val, stack := Guard(func() { err = rd.to(build(), dst) })
				cls := formatClass(rd.name)
				if panicked {
					c.Rec.ViolateStack("panic-on-write-failure:"+cls+"@"+PanicSite(stack), fmt.Sprintf("%s panicked when write call %d of %d failed (%s): %v", rd.name, k, n, c15ModeNames[mode], val), cs, stack)
					return
				}
				if !bytes.HasPrefix(ref.accepted, w.accepted) {
					c.Rec.Violate("not-a-prefix:"+cls+":"+modeKey(mode), fmt.Sprintf("%s with write call %d of %d failing (%s): the writer accepted %q, which is not a prefix of the fault-free output %q (%d more Write calls were made after the failure)", rd.name, k, n, c15ModeNames[mode], w.accepted, ref.accepted, w.after), cs)
					return
				}
				if err == nil {
					c.Rec.Violate("nil-error:"+cls+":"+modeKey(mode), fmt.Sprintf("%s with write call %d of %d failing (%s): RenderTo returned nil (%d more Write calls were made after the failure)", rd.name, k, n, c15ModeNames[mode], w.after), cs)
					return
				}
				if w.after == 0 {
					c.Rec.Count("injections_after_which_writing_stopped_at_once", 1)
				}
				// "output stops there" has no end date: the owner keeps its destination, the program goes on rendering
				// elsewhere (the same table again, through the same entry point, into a healthy destination) - and the
				// destination that failed is not written to again by anybody
				if (k+mode+kind)%3 == 0 || k == n {
					callsThen, acceptedThen := w.calls, len(w.accepted)
					healthy := &scriptWriter{}
					Guard(func() { rd.to(build(), healthy) })
					c.Rec.Count("later_healthy_renders_after_a_failed_one", 1)
					if w.calls != callsThen || len(w.accepted) != acceptedThen {
						c.Rec.Violate("written-to-after-the-failed-render-returned:"+cls, fmt.Sprintf("%s: write call %d of %d failed (%s) and RenderTo returned %v; during a LATER render of the same table into another, healthy destination the failed destination received %d more Write calls (%d more bytes accepted): %q", rd.name, k, n, c15ModeNames[mode], err, w.calls-callsThen, len(w.accepted)-acceptedThen, w.accepted[acceptedThen:]), cs)
						return
					}
					if !bytes.Equal(healthy.accepted, ref.accepted) {
						c.Rec.Violate("later-render-differs-after-a-failed-one:"+cls, fmt.Sprintf("%s: after a render whose write call %d of %d failed (%s), the next render of the same table into a healthy destination wrote %q, fault-free output is %q", rd.name, k, n, c15ModeNames[mode], healthy.accepted, ref.accepted), cs)
						return
					}
				}
			}
		}
		if sample && n > 3 && c.Rec.WantSample() {
			c.Rec.Sample(map[string]interface{}{"table": spec, "renderer": rd.name, "fault_free_write_calls": n, "injections": n * 3 * c15NModes})
		}
	}
}

func modeKey(m int) string {
	return []string{"from-k", "only-k", "partial-k", "full-k", "all-but-one-k"}[m]
}

func c15Fixed(c *Ctx, i int, r *gen.R) {
	ts := c15FixedTables()
	spec := ts[i%len(ts)]
	c15Inject(c, &spec, i/len(ts) == 1, true)
}

func c15Random(c *Ctx, i int, r *gen.R) {
	spec := r.Table(gen.TableOpts{MaxCols: 4, MaxRows: 5, ZeroHeaderOK: true, MinCols: 0, Noise: gen.NoiseSkipable | gen.NoiseAlign | gen.NoiseCallbacks, NoScale: true,
		Item: func(r *gen.R) gen.ItemSpec { return r.TextItem(c10Fam, 4) }})
	c15Inject(c, &spec, r.Chance(1, 4), true)
}

// ---- destinations of other dynamic types that fail for real: nothing in the property depends on the writer being a test double

type c15Dest struct {
	name string
	open func(dir string) (io.Writer, func())
}

var c15FailingDests = []c15Dest{
	{"the caller's *bufio.Writer whose earlier Flush has failed (every later Write is refused at once)", func(dir string) (io.Writer, func()) {
		pr, pw := io.Pipe()
		pr.CloseWithError(errInjected)
		bw := bufio.NewWriter(pw)
		bw.WriteString("a title line the caller wrote first\n")
		bw.Flush() // fails: from now on the writer is in its sticky error state
		return bw, func() { pw.Close() }
	}},
	{"*os.File that has been closed", func(dir string) (io.Writer, func()) {
		f, err := os.CreateTemp(dir, "c15-closed-*.out")
		if err != nil {
			return nil, nil
		}
		f.Close()
		return f, func() { os.Remove(f.Name()) }
	}},
	{"*os.File opened read-only", func(dir string) (io.Writer, func()) {
		f, err := os.CreateTemp(dir, "c15-ro-*.out")
		if err != nil {
			return nil, nil
		}
		f.Close()
		g, err := os.Open(f.Name())
		if err != nil {
			os.Remove(f.Name())
			return nil, nil
		}
		return g, func() { g.Close(); os.Remove(f.Name()) }
	}},
	{"*os.File on /dev/full", func(dir string) (io.Writer, func()) {
		f, err := os.OpenFile("/dev/full", os.O_WRONLY, 0)
		if err != nil {
			return nil, nil
		}
		return f, func() { f.Close() }
	}},
	{"*os.File that is a pipe nobody reads any more", func(dir string) (io.Writer, func()) {
		pr, pw, err := os.Pipe()
		if err != nil {
			return nil, nil
		}
		pr.Close()
		return pw, func() { pw.Close() }
	}},
	{"*io.PipeWriter whose reader has gone away", func(dir string) (io.Writer, func()) {
		pr, pw := io.Pipe()
		pr.CloseWithError(errInjected)
		return pw, func() { pw.Close() }
	}},
}

func c15RealDest(c *Ctx, i int, r *gen.R) {
	ts := c15FixedTables()
	spec := ts[i%len(ts)]
	for _, rd := range c15Renderers() {
		ref := &scriptWriter{}
		t := tabular.New()
		spec.Build(t)
		if rd.to(t, ref) != nil || len(ref.accepted) == 0 {
			continue // a write of no bytes does not reach the file, so it cannot fail
		}
		for _, d := range c15FailingDests {
			w, done := d.open(c.OutDir)
			if w == nil {
				c.Rec.Count("destinations_unavailable", 1)
				continue
			}
			cs := map[string]interface{}{"table": spec, "renderer": rd.name, "destination": d.name}
			c.Case = cs
			t := tabular.New()
			spec.Build(t)
			var err error
			panicked, val, stack := Guard(func() { err = rd.to(t, w) })
			done()
			c.Rec.Eval(gen.Hash64("dest", spec.Shape(), rd.name, d.name), true)
			c.Rec.Count("renders_to_really_failing_destinations", 1)
			c.Rec.Count("detail:failing_destination:"+d.name, 1)
			cls := formatClass(rd.name)
			if panicked {
				c.Rec.ViolateStack("panic-on-write-failure:"+cls+":real-destination@"+PanicSite(stack), fmt.Sprintf("%s panicked writing to %s: %v", rd.name, d.name, val), cs, stack)
				return
			}
			if err == nil {
				c.Rec.Violate("nil-error:"+cls+":real-destination", fmt.Sprintf("%s writing to %s (every write fails): RenderTo returned nil", rd.name, d.name), cs)
				return
			}
		}
	}
}

// ---- second channel (thorough): a real write(2) on a real file fails with ENOSPC under strace

func init() {
	auxModes["c15child"] = c15Child
}

// c15Child renders fixed table #idx with the named renderer to the file given by path.
// Exit status: 0 RenderTo returned nil; 10 returned an error; 11 panicked.
func c15Child(args []string) int {
	runtime.LockOSThread()
	if len(args) < 3 {
		return 3
	}
	idx, _ := strconv.Atoi(args[0])
	rname, path := args[1], args[2]
	ts := c15FixedTables()
	spec := ts[idx%len(ts)]
	t := tabular.New()
	spec.Build(t)
	var rd *c15Renderer
	for _, x := range c15Renderers() {
		if x.name == rname {
			x := x
			rd = &x
		}
	}
	if rd == nil {
		return 3
	}
	f, err := os.OpenFile(path, os.O_WRONLY|os.O_CREATE|os.O_TRUNC, 0o644)
	if err != nil {
		return 3
	}
	var rerr error
	panicked, _, _ := Guard(func() { rerr = rd.to(t, f) })
	f.Close()
	switch {
	case panicked:
		return 11
	case rerr != nil:
		return 10
	}
	return 0
}

func c15Strace(c *Ctx, i int, r *gen.R) {
	strace, err := exec.LookPath("strace")
	if err != nil {
		c.Rec.Count("strace_unavailable", 1)
		return
	}
	ts := c15FixedTables()
	rds := c15Renderers()
	idx := i % len(ts)
	rd := rds[(i/len(ts))%len(rds)]
	spec := ts[idx]
	ref := &scriptWriter{}
	t := tabular.New()
	spec.Build(t)
	if rd.to(t, ref) != nil || ref.calls == 0 {
		return
	}
	k := 1 + r.Intn(ref.calls)
	if r.Chance(1, 3) {
		k = 1 // whatever batching the renderer does, there is a first write(2)
	}
	plus := ""
	if r.Bool() {
		plus = "+"
	}
	cs := map[string]interface{}{"table": spec, "renderer": rd.name, "write_syscall_failing": fmt.Sprintf("%d%s of %d", k, plus, ref.calls), "errno": "ENOSPC"}
	c.Case = cs
	out := filepath.Join(c.OutDir, fmt.Sprintf("c15-%d-%d.out", c.Shard, i))
	slog := out + ".strace"
	os.Remove(out)
	cmd := exec.Command(strace, "-f", "-qq", "-o", slog, "-P", out, "-e", "trace=write", "-e", fmt.Sprintf("inject=write:error=ENOSPC:when=%d%s", k, plus),
		c.Exe, "-aux", "c15child", strconv.Itoa(idx), rd.name, out)
	cmd.Env = append(os.Environ(), "GOMAXPROCS=1")
	var runErr error
	waitingForChild(func() { runErr = cmd.Run() })
	code := 0
	if ee, ok := runErr.(*exec.ExitError); ok {
		code = ee.ExitCode()
	} else if runErr != nil {
		c.Rec.Count("strace_unavailable", 1)
		return
	}
	got, _ := os.ReadFile(out)
	slogB, _ := os.ReadFile(slog)
	os.Remove(out)
	os.Remove(slog)
	if !bytes.Contains(slogB, []byte("ENOSPC")) {
		// the injection did not happen (ptrace not permitted, or the write count differs): nothing was decided
		c.Rec.Count("strace_runs_without_injection", 1)
		return
	}
	c.Rec.Eval(gen.Hash64("strace", fmt.Sprint(idx), rd.name, fmt.Sprint(k), plus), true)
	c.Rec.Count("strace_injections", 1)
	switch code {
	case 10:
	case 0:
		c.Rec.Violate("nil-error:"+formatClass(rd.name)+":real-write-ENOSPC", fmt.Sprintf("%s: write(2) number %d%s failed with ENOSPC but RenderTo returned nil", rd.name, k, plus), cs)
		return
	case 11:
		c.Rec.Violate("panic-on-write-failure:"+formatClass(rd.name)+":real-write-ENOSPC", fmt.Sprintf("%s: panicked when write(2) number %d%s failed with ENOSPC", rd.name, k, plus), cs)
		return
	default:
		c.Rec.Count("strace_child_odd_exit", 1)
		return
	}
	if !bytes.HasPrefix(ref.accepted, got) {
		c.Rec.Violate("not-a-prefix:"+formatClass(rd.name)+":real-write-ENOSPC", fmt.Sprintf("%s: after write(2) number %d%s failed with ENOSPC the file holds %q, not a prefix of %q", rd.name, k, plus, got, ref.accepted), cs)
	}
}

func init() {
	nt := len(c15FixedTables())
	register(&Prop{
		ID:    "C15",
		Level: "fault_enumeration",
		Rule: "for each (table, renderer) the fault-free run counts N Write calls and records the reference bytes; then EVERY k in 1..N x 5 modes {fails from call k on, fails only at call k, accepts half of call k's bytes and returns an error, accepts all of call k's bytes and returns an error, accepts all but one byte of call k and fails from then on} is injected through a scripted io.Writer and again through a scripted writer that also implements io.StringWriter and through one that also has Flush, Sync and Close methods which succeed (exhaustive per table and renderer). Renderers: csv, json, markdown, html, html with class/id/caption/row-class generator through their wrappers' RenderTo, the package-level RenderTo functions of csv, json, markdown and texttable, auto.RenderTo for seven styles, text under every registered decoration. " +
			"phase 0: 9 fixed tables (one of them 70 rows tall) chosen to reach every write site (header/no header/empty header/only header, separators leading/trailing/consecutive, ragged and zero-cell rows, multi-line cells, rows extended after attach, no columns) x {plain, JSON skipable default}; phase 1: random tables; phase 2 (thorough): the same renderers writing to a real file whose k-th write(2) fails with ENOSPC under strace -e inject (k random per case or the very first write, 'only k' and 'from k on'); phase 3: the same renderers writing to destinations of other dynamic types on which every write really fails (closed file, read-only file, /dev/full, OS pipe without reader, io.Pipe whose reader has gone). " +
			"Distinct = distinct (table, renderer); non-trivial = the fault-free run makes at least one Write call.",
		Assumptions: []string{
			"a writer returning a short count with a nil error breaks the io.Writer contract and is not injected",
			"the error value the failing calls return rotates through 13 values (a private one, io.EOF bare and wrapped, io.ErrUnexpectedEOF, io.ErrShortWrite, io.ErrClosedPipe, os.ErrClosed, context.Canceled, EPIPE, EAGAIN, an error whose Is says yes to everything, an error with an empty message, io.ErrNoProgress)",
			"the error value returned need not be the injected one, only non-nil",
			"each injection runs on a freshly built table and wrapper",
			"for renders of more than 60 Write calls (the 70-row table) the calls 13..N-4 are failed in two modes through the plain writer only; every other (call, mode, writer kind) combination is injected",
		},
		Phases: []Phase{
			{Name: "9 fixed tables x 2 x all renderers x every k x 5 modes x 3 writer kinds", Exhaustive: true, N: Fixed(nt*2, nt*2), Run: c15Fixed},
			{Name: "random tables x all renderers x every k x 5 modes", N: Fixed(32, 2000), Run: c15Random},
			{Name: "real write(2) failing with ENOSPC under strace (thorough only)", N: Fixed(0, 160), Run: c15Strace},
			{Name: "9 fixed tables x all renderers x 5 really failing destinations (closed, read-only and /dev/full files, broken OS pipe, broken io.Pipe)", Exhaustive: true, N: Fixed(nt, nt), Run: c15RealDest},
		},
	})
}
