package props

import (
	"fmt"
	"go.pennock.tech/tabular/length"
	stdhtml "html"
	"html/template"
	"reflect"
	"strings"

	"go.pennock.tech/tabular"
	"go.pennock.tech/tabular/html"

	"verifharness/internal/gen"
	"verifharness/internal/model"
)

// C06 - HTML output has a fixed tag skeleton and cell text can never become markup.

const c06Fam = gen.FAscii | gen.FHTML | gen.FNewline | gen.FWide | gen.FMD | gen.FCSV | gen.FCR | gen.FEmoji | gen.FEdge

// c06Vocabulary: words a table renderer built on templates is likely to have a meaning of its own for - the
// elements and attributes of the output, the names of template functions, fields and actions, template names.
// The caller's free-form strings (template name, class, id, caption, row classes) may be any of them.
var c06Vocabulary = []string{"table", "caption", "thead", "tbody", "tfoot", "tr", "th", "td", "row", "cell", "header", "headers", "body",
	"class", "id", "Class", "Id", "Caption", "HaveRowClass", "Headers", "Rows", "Cells", "RowClass", "OnePlus", "IsSeparator",
	"define", "template", "block", "end", "range", "with", "if", "else", "nil", "html", "js", "urlquery", "print", "index", "len",
	"_html_template_htmlescaper", "_html_template_attrescaper", "tabular", "tabular.html", "html.table", "main", "root", "content", "T", "."}

type c06Case struct {
	Table         gen.TableSpec `json:"table"`
	ID            gen.Q         `json:"id"`
	Class         gen.Q         `json:"class"`
	Caption       gen.Q         `json:"caption"`
	Gen           bool          `json:"row_class_generator"`
	GenBase       gen.Q         `json:"generator_output_prefix"`
	GenEmptyEvery int           `json:"generator_returns_the_empty_string_for_every_nth_call,omitempty"`
	TName         string        `json:"template_name"`
	CtxKind       int           `json:"generator_context_kind"` // 0 pointer, 1 nil, 2 string, 3 int, 4 slice, 5 map, 6 func, 7 struct value
	Staged        bool          `json:"staged_wrapper_reused_with_other_settings_at_first_render"`
	StageAt       int           `json:"first_render_after_row_operations"`
	PreGen        bool          `json:"generator_set_at_first_render"`
	Shared        bool          `json:"rows_also_collected_into_a_second_table"`
	CopyWrapper   bool          `json:"judged_wrapper_is_a_by_value_copy_of_the_staged_wrapper"`
	Others        int           `json:"other_html_wrappers_with_generators_of_their_own_around_the_same_table"` // rendered before the judged render; 10+n: the judged wrapper also rendered once before them
}

type c06Call struct {
	row int
	ret string
	ctx interface{}
}

type c06Parser struct {
	toks []model.HTMLToken
	i    int
}

func (p *c06Parser) ws() {
	for p.i < len(p.toks) && p.toks[p.i].Kind == 'T' && model.IsSpaceText(p.toks[p.i].Text) {
		p.i++
	}
}

func (p *c06Parser) start(name string) (*model.HTMLToken, error) {
	p.ws()
	if p.i >= len(p.toks) {
		return nil, fmt.Errorf("output ends where <%s> is expected", name)
	}
	t := &p.toks[p.i]
	if t.Kind != 'S' || t.Name != name {
		return nil, fmt.Errorf("token %d is %s, expected <%s>", p.i, tokDesc(t), name)
	}
	p.i++
	return t, nil
}

func (p *c06Parser) peekStart(name string) bool {
	p.ws()
	return p.i < len(p.toks) && p.toks[p.i].Kind == 'S' && p.toks[p.i].Name == name
}

func (p *c06Parser) end(name string) error {
	p.ws()
	if p.i >= len(p.toks) {
		return fmt.Errorf("output ends where </%s> is expected", name)
	}
	t := &p.toks[p.i]
	if t.Kind != 'E' || t.Name != name {
		return fmt.Errorf("token %d is %s, expected </%s>", p.i, tokDesc(t), name)
	}
	p.i++
	return nil
}

// content reads the text of a th/td/caption element: at most one text token, then the end tag.
func (p *c06Parser) content(name string) (string, error) {
	txt := ""
	if p.i < len(p.toks) && p.toks[p.i].Kind == 'T' {
		txt = p.toks[p.i].Text
		p.i++
	}
	if p.i >= len(p.toks) {
		return "", fmt.Errorf("output ends inside <%s>", name)
	}
	t := &p.toks[p.i]
	if t.Kind != 'E' || t.Name != name {
		return "", fmt.Errorf("token %d inside <%s> is %s: content became markup", p.i, name, tokDesc(t))
	}
	p.i++
	return txt, nil
}

func tokDesc(t *model.HTMLToken) string {
	switch t.Kind {
	case 'S':
		return fmt.Sprintf("<%s> with %d attributes", t.Name, len(t.Attrs))
	case 'E':
		return "</" + t.Name + ">"
	}
	return fmt.Sprintf("text %q", t.Text)
}

func attrsOnly(t *model.HTMLToken, allowed ...string) (map[string]string, error) {
	m := map[string]string{}
	for _, a := range t.Attrs {
		ok := false
		for _, n := range allowed {
			if a[0] == n {
				ok = true
			}
		}
		if !ok {
			return nil, fmt.Errorf("<%s> carries attribute %q", t.Name, a[0])
		}
		if _, dup := m[a[0]]; dup {
			return nil, fmt.Errorf("<%s> carries attribute %q twice", t.Name, a[0])
		}
		m[a[0]] = a[1]
	}
	return m, nil
}

// c06SameCtx compares a context handed to the generator with the one supplied (contexts need not be comparable).
func c06SameCtx(got, want interface{}) bool {
	if want == nil || got == nil {
		return want == nil && got == nil
	}
	gv, wv := reflect.ValueOf(got), reflect.ValueOf(want)
	if gv.Type() != wv.Type() {
		return false
	}
	switch wv.Kind() {
	case reflect.Func, reflect.Map, reflect.Slice, reflect.Ptr:
		return gv.Pointer() == wv.Pointer()
	}
	return reflect.DeepEqual(got, want)
}

func c06Check(c *Ctx, cs *c06Case, sample bool) {
	c.Case = cs
	spec := &cs.Table
	t0 := tabular.New()
	ht := html.Wrap(t0)
	ht.TemplateName = cs.TName
	var calls []c06Call
	var ctxObj interface{} = &struct{ x int }{7}
	switch cs.CtxKind {
	case 1:
		ctxObj = nil
	case 2:
		ctxObj = "a string as context"
	case 3:
		ctxObj = 42
	case 4:
		ctxObj = []int{1, 2, 3}
	case 5:
		ctxObj = map[string]int{"k": 1}
	case 6:
		ctxObj = func() string { return "a func as context" }
	case 7:
		ctxObj = struct {
			a string
			b []byte
		}{"struct", []byte("x")}
	}
	if cs.Staged {
		// the same wrapper renders the partial table under other settings first
		ht.Id, ht.Class, ht.Caption = "earlier-id", "", "an earlier <caption>"
		if cs.PreGen {
			ht.SetRowClassGenerator(func(rowNum int, ctx interface{}) template.HTMLAttr { return "earlier-generator" }, "earlier context")
		}
		b := spec.BuildStaged(t0, cs.StageAt, func() { o, _ := ht.Render(); c.Keep(o, "an earlier Render through the same wrapper") })
		o, _ := ht.Render()
		c.Keep(o, "an earlier Render through the same wrapper")
		b.Finalize()
		c.Rec.Count("staged_cases(render, change, render again through the same wrapper)", 1)
		if cs.CopyWrapper {
			// the judged wrapper is a by-value copy of the wrapper that rendered before (HTMLTable is a plain struct of
			// exported settings): the copy has its own settings and its own generator from here on, the original
			// keeps the earlier ones
			cp := *ht
			ht = &cp
			c.Rec.Count("staged_cases_judged_through_a_by-value_copy_of_the_wrapper_that_rendered_before", 1)
		}
		ht.SetRowClassGenerator(nil, nil)
	} else {
		spec.Build(t0)
	}
	if cs.Shared {
		// the application also collects (some of) this table's rows into a second table, in another order;
		// the first table is what gets rendered, and its rows keep their positions in it
		second := tabular.New()
		rows := t0.AllRows()
		for k := len(rows) - 1; k >= 0; k-- {
			if !rows[k].IsSeparator() && k%2 == 0 {
				second.AddRow(rows[k])
			}
		}
		c.Rec.Count("cases_with_rows_shared_with_a_second_table", 1)
	}
	ht.Id, ht.Class, ht.Caption = string(cs.ID), string(cs.Class), string(cs.Caption)
	if cs.Gen {
		ht.SetRowClassGenerator(func(rowNum int, ctx interface{}) template.HTMLAttr {
			ret := fmt.Sprintf("%s#call%d", cs.GenBase, len(calls))
			if cs.GenEmptyEvery > 0 && len(calls)%cs.GenEmptyEvery == cs.GenEmptyEvery-1 {
				ret = "" // a zebra generator: no class for some rows is a class too, the empty one
			}
			calls = append(calls, c06Call{rowNum, ret, ctx})
			return template.HTMLAttr(ret)
		}, ctxObj)
	}
	otherCalls := 0
	if cs.Others > 0 {
		// other wrappers around the same table, each with a generator, context and settings of its own, render
		// first: whatever a render leaves behind on the table belongs to the wrapper that left it
		if cs.Others >= 10 {
			ht.Render()
			calls = nil
		}
		for k := 0; k < cs.Others%10; k++ {
			k := k
			o := html.Wrap(t0)
			o.TemplateName = cs.TName
			o.Id, o.Class, o.Caption = fmt.Sprintf("other-%d", k), "other-class", "another wrapper's caption"
			o.SetRowClassGenerator(func(rowNum int, ctx interface{}) template.HTMLAttr {
				otherCalls++
				return template.HTMLAttr(fmt.Sprintf("other-wrapper-%d-row-%d", k, rowNum))
			}, fmt.Sprintf("context of other wrapper %d", k))
			o.Render()
		}
		c.Rec.Count("cases_with_other_html_wrappers_around_the_same_table", 1)
		otherCalls = 0
	}
	out, err := ht.Render()
	if otherCalls != 0 {
		c.Rec.Violate("html:generator-of-another-wrapper-called", fmt.Sprintf("while this wrapper rendered, the row-class generator of ANOTHER html wrapper around the same table was called %d times; output %q", otherCalls, out), cs)
		return
	}
	nontrivial := spec.NBody() > 0 || spec.HasHeader
	c.Rec.Eval(gen.Hash64(spec.Shape(), fmt.Sprint(spec.HeaderTexts()), fmt.Sprint(textsOf(spec)), string(cs.ID), string(cs.Class), string(cs.Caption), fmt.Sprint(cs.Gen, cs.GenBase)), nontrivial)
	if err != nil {
		if out != "" {
			c.Rec.Violate("html:text-with-error", fmt.Sprintf("Render returned %d bytes together with error %v", len(out), err), cs)
			return
		}
		// the statement is unconditional: for any strings the output consists of the skeleton
		c.Rec.Violate("html:refused-although-in-domain", fmt.Sprintf("the html renderer refused the table: %v", err), cs)
		return
	}
	for _, txts := range append(textsOf(spec), spec.HeaderTexts(), []string{string(cs.ID), string(cs.Class), string(cs.Caption), string(cs.GenBase)}) {
		for _, x := range txts {
			if strings.IndexByte(x, 0) >= 0 {
				// U+0000 is outside the property's alphabet (HTML cannot carry it): no-panic only
				c.Rec.Count("tables_with_NUL_text(no-panic only)", 1)
				return
			}
		}
	}
	c.Rec.Count("outputs_tokenized", 1)
	if sample && nontrivial && c.Rec.WantSample() {
		c.Rec.Sample(map[string]interface{}{"case": cs, "output": gen.Q(out)})
	}
	viol := func(key, msg string) { c.Rec.Violate(key, msg+fmt.Sprintf("; output %q", out), cs) }
	toks, terr := model.TokenizeHTMLStrict(out)
	if terr != nil {
		viol("html:not-tokenizable", "strict tokenizer rejects the output: "+terr.Error())
		return
	}
	for _, t := range toks {
		if t.Kind != 'T' {
			switch t.Name {
			case "table", "caption", "thead", "tbody", "tr", "th", "td":
			default:
				viol("html:foreign-tag", fmt.Sprintf("tag %q is not part of the fixed skeleton", t.Name))
				return
			}
		}
	}
	p := &c06Parser{toks: toks}
	fail := func(e error) { viol("html:skeleton", e.Error()) }
	dec := stdhtml.UnescapeString
	tt, e := p.start("table")
	if e != nil {
		fail(e)
		return
	}
	am, e := attrsOnly(tt, "class", "id")
	if e != nil {
		fail(e)
		return
	}
	for name, want := range map[string]string{"class": string(cs.Class), "id": string(cs.ID)} {
		v, present := am[name]
		c.Rec.Count("attribute_values_compared", 1)
		if !present && want != "" {
			viol("html:table-attribute-missing", fmt.Sprintf("<table> lacks %s although %q was supplied", name, want))
			return
		}
		if present && dec(v) != want {
			viol("html:attribute-value", fmt.Sprintf("<table %s> decodes to %q, supplied %q", name, dec(v), want))
			return
		}
	}
	if p.peekStart("caption") {
		p.i++
		txt, e := p.content("caption")
		if e != nil {
			fail(e)
			return
		}
		if dec(txt) != string(cs.Caption) {
			viol("html:caption-text", fmt.Sprintf("caption decodes to %q, supplied %q", dec(txt), cs.Caption))
			return
		}
	} else if cs.Caption != "" {
		viol("html:caption-missing", fmt.Sprintf("no <caption> although %q was supplied", cs.Caption))
		return
	}
	// rows as emitted: header first
	type erow struct {
		cell  string
		texts []string
		call  int // expected generator argument
	}
	rows := []erow{{"th", spec.HeaderTexts(), 0}}
	for i := range spec.Rows {
		if !spec.Rows[i].Sep {
			rows = append(rows, erow{"td", spec.RowTexts(i), i + 1})
		}
	}
	if _, e := p.start("thead"); e != nil {
		fail(e)
		return
	}
	for ri, er := range rows {
		if ri == 1 {
			if e := p.end("thead"); e != nil {
				fail(e)
				return
			}
			if _, e := p.start("tbody"); e != nil {
				fail(e)
				return
			}
		}
		tr, e := p.start("tr")
		if e != nil {
			viol("html:row-count", fmt.Sprintf("emitted row %d of %d (header first) not found: %v", ri, len(rows), e))
			return
		}
		am, e := attrsOnly(tr, "class")
		if e != nil {
			fail(e)
			return
		}
		cv, has := am["class"]
		if has != cs.Gen {
			viol("html:row-class-presence", fmt.Sprintf("emitted row %d: class attribute present=%v, generator set=%v", ri, has, cs.Gen))
			return
		}
		if cs.Gen {
			if ri >= len(calls) {
				viol("html:generator-calls", fmt.Sprintf("generator was called %d times, %d rows emitted", len(calls), len(rows)))
				return
			}
			if calls[ri].row != er.call {
				viol("html:generator-argument", fmt.Sprintf("call %d of the row-class generator got row number %d, expected %d (0 for the header, else the 1-based position counting separators)", ri, calls[ri].row, er.call))
				return
			}
			if !c06SameCtx(calls[ri].ctx, ctxObj) {
				viol("html:generator-context", fmt.Sprintf("call %d of the row-class generator got context %v, not the one supplied", ri, calls[ri].ctx))
				return
			}
			if dec(cv) != calls[ri].ret {
				viol("html:attribute-value", fmt.Sprintf("emitted row %d class decodes to %q, the generator's call %d returned %q", ri, dec(cv), ri, calls[ri].ret))
				return
			}
			c.Rec.Count("generator_calls_matched", 1)
		}
		for ci, want := range er.texts {
			if _, e := p.start(er.cell); e != nil {
				viol("html:cell-count", fmt.Sprintf("emitted row %d: cell %d of %d not found: %v", ri, ci+1, len(er.texts), e))
				return
			}
			txt, e := p.content(er.cell)
			if e != nil {
				viol("html:content-became-markup", fmt.Sprintf("emitted row %d cell %d: %v", ri, ci+1, e))
				return
			}
			c.Rec.Count("cell_texts_compared", 1)
			if dec(txt) != want {
				viol("html:cell-text", fmt.Sprintf("emitted row %d cell %d decodes to %q, the cell's text is %q", ri, ci+1, dec(txt), want))
				return
			}
		}
		if e := p.end("tr"); e != nil {
			viol("html:cell-count", fmt.Sprintf("emitted row %d: after its %d cells: %v", ri, len(er.texts), e))
			return
		}
	}
	if len(rows) == 1 {
		if e := p.end("thead"); e != nil {
			fail(e)
			return
		}
		if _, e := p.start("tbody"); e != nil {
			fail(e)
			return
		}
	}
	if e := p.end("tbody"); e != nil {
		viol("html:row-count", fmt.Sprintf("after the %d expected rows: %v", len(rows), e))
		return
	}
	if e := p.end("table"); e != nil {
		fail(e)
		return
	}
	p.ws()
	if p.i != len(p.toks) {
		viol("html:skeleton", fmt.Sprintf("%d tokens after </table>", len(p.toks)-p.i))
		return
	}
	if cs.Gen && len(calls) != len(rows) {
		viol("html:generator-calls", fmt.Sprintf("generator was called %d times, %d rows emitted", len(calls), len(rows)))
	}
}

func c06Random(c *Ctx, i int, r *gen.R) {
	spec := r.Table(gen.TableOpts{MaxCols: 5, MaxRows: 6, ZeroHeaderOK: true, MinCols: 0, Noise: gen.NoiseSkipable | gen.NoiseAlign | gen.NoiseCallbacks | gen.NoiseFailingCallbacks,
		Item: func(r *gen.R) gen.ItemSpec {
			if r.Chance(1, 30) {
				return r.AnyItem(c06Fam, 4, 1)
			}
			return r.TextItemSized(c06Fam, 6, length.StringCells)
		}})
	cs := &c06Case{Table: spec}
	opt := func() gen.Q {
		if r.Chance(1, 3) {
			return ""
		}
		if r.Chance(1, 8) {
			return gen.Q(gen.Pick(r, c06Vocabulary))
		}
		return gen.Q(r.Str(c06Fam, 5))
	}
	cs.ID, cs.Class, cs.Caption = opt(), opt(), opt()
	cs.Gen = r.Bool()
	cs.GenBase = gen.Q(r.Str(c06Fam, 4))
	cs.GenEmptyEvery = gen.Pick(r, []int{0, 0, 1, 2, 3})
	if r.Chance(1, 4) {
		cs.TName = r.Word()
		if r.Chance(1, 3) {
			cs.TName = r.Str(c06Fam, 3) // a template name is any string
		} else if r.Chance(1, 2) {
			cs.TName = gen.Pick(r, c06Vocabulary) // also a word the renderer has a use of its own for
		}
	}
	if r.Chance(1, 2) {
		cs.CtxKind = r.Intn(8)
	}
	if r.Chance(1, 2) {
		cs.Staged, cs.StageAt, cs.PreGen = true, r.Range(0, len(spec.Rows)), r.Bool()
		cs.CopyWrapper = r.Chance(1, 6)
	}
	cs.Shared = r.Chance(1, 6)
	if r.Chance(1, 4) {
		cs.Others = r.Range(1, 2) + 10*r.Intn(2)
	}
	c06Check(c, cs, true)
}

var c06Atoms = []string{"<", ">", "&", "\"", "'", "`", "&amp;", "&lt;", "&#60;", "&#x3c", "<script>alert(1)</script>", "</td><td>", "</table>", "<!--", "-->", "{{.}}", " onmouseover=\"x\"", "\"><b>", "'><b>", "&#39;", "\n", "</caption>", "</th>", " ", "+", "=", "/", "\\", "&copy;", "\u00a0"}

// every hostile atom in every context: cell, header, caption, id, class, generator output
func c06Contexts(c *Ctx, i int, r *gen.R) {
	n := len(c06Atoms)
	a := c06Atoms[i%n]
	b2 := c06Atoms[(i/n)%n]
	ctx := i / (n * n)
	s := a + "x" + b2
	cs := &c06Case{Table: gen.TableSpec{HasHeader: true, Header: []gen.ItemSpec{gen.StrItem("h1"), gen.StrItem("h2")},
		Rows: []gen.RowSpec{{Items: []gen.ItemSpec{gen.StrItem("a"), gen.StrItem("b")}}, {Sep: true}, {Items: []gen.ItemSpec{gen.StrItem("c")}}}}}
	switch ctx {
	case 0:
		cs.Table.Rows[0].Items[1] = gen.StrItem(s)
	case 1:
		cs.Table.Header[0] = gen.StrItem(s)
	case 2:
		cs.Caption = gen.Q(s)
	case 3:
		cs.ID = gen.Q(s)
	case 4:
		cs.Class = gen.Q(s)
	case 5:
		cs.Gen, cs.GenBase = true, gen.Q(s)
	}
	if i%3 == 1 {
		cs.Staged, cs.StageAt, cs.PreGen = true, i%4, i%2 == 0
	}
	c06Check(c, cs, i%900 == 11)
}

func init() {
	n := len(c06Atoms)
	register(&Prop{
		ID:    "C06",
		Level: "exploration",
		Rule: "phase 0 (exhaustive): all pairs over a 30-atom markup-hostile alphabet (angle brackets, quotes, ampersand, entity look-alikes with and without semicolon, script/close-tag text, comment delimiters, template actions, attribute-breaking sequences, LF, NBSP) placed in each of 6 contexts: body cell, header cell, caption, id, class, row-class generator output; " +
			"phase 1: random tables of any shape (0-5 columns, 0-6 rows, ragged/zero-cell rows, separators anywhere, header absent/empty/short/long) with texts, caption, id, class and generator output of 0-6 atoms from ascii+html+LF+CR+wide+md+csv+emoji alphabets, with/without generator, with/without template name. Output tokenized by a strict tokenizer and matched against the skeleton; texts and attribute values entity-decoded with html.UnescapeString. " +
			"Distinct = distinct (shape, texts, attributes, generator); non-trivial = the table has a header or a body row.",
		Assumptions: []string{
			"strings containing NUL are outside the alphabet (HTML cannot represent U+0000; html/template maps it to U+FFFD by design)",
			"an empty class/id/caption may be omitted or emitted with an empty value",
			"whitespace between tags is not significant; whitespace inside th/td/caption is content",
		},
		Phases: []Phase{
			{Name: "hostile atom pairs in 6 contexts", Exhaustive: true, N: Fixed(n*n*6, n*n*6), Run: c06Contexts},
			{Name: "random tables", N: Fixed(5000, 2000000), Run: c06Random},
		},
	})
}
