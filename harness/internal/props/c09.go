package props

import (
	"fmt"
	"runtime"
	"strings"
	"sync"

	"go.pennock.tech/tabular"
	"go.pennock.tech/tabular/properties"
	"go.pennock.tech/tabular/properties/align"
	"go.pennock.tech/tabular/texttable/decoration"

	"verifharness/internal/gen"
)

// C09 - every renderer is total: never panics; failure is an error with no text.
//
// Monitor: panic guard + (text, err) check around every route, over a
// bounded-exhaustive enumeration of build sequences and random longer ones.

const c09NOps = 13

var c09OpNames = []string{
	"AddHeaders()", "AddHeaders(x)", "AddHeaders(x,y)",
	"AddRowItems()", "AddRowItems(x)", "AddRowItems(x,y,z)",
	"AddSeparator()", "AppendNewRow()", "lastHandle.Add(x)",
	"AddRow(NewRow())", "AddRow(NewRow+2 cells)", "AllRows()[last].Add(x)",
	"AddRow(NewRowSizedFor()+1 cell)",
}

// item flavours: each is a cyclic list of items used in order by a sequence
var c09Flavours = []struct {
	name  string
	items []gen.ItemSpec
}{
	{"plain", []gen.ItemSpec{gen.StrItem("x"), gen.StrItem("yy"), gen.StrItem("z")}},
	{"multi-line", []gen.ItemSpec{gen.StrItem("a\nb"), gen.StrItem("c\n\nd\n"), gen.StrItem("\n"), gen.StrItem("e")}},
	{"declares less than it has", []gen.ItemSpec{
		gen.TypedItem("VS_HW", gen.Fields{S: "a\nbb\nc", HV: 1, WV: 1}, false),
		gen.TypedItem("VS_H", gen.Fields{S: "p\nq", HV: 0}, false),
		gen.TypedItem("PS_HW", gen.Fields{S: "long text", HV: -2, WV: -3}, true),
		gen.StrItem("k"),
	}},
	{"declares more than it has", []gen.ItemSpec{
		gen.TypedItem("VS_HW", gen.Fields{S: "ab", HV: 5, WV: 9}, false),
		gen.TypedItem("VS_W", gen.Fields{S: "a\nb", WV: 7}, false),
		gen.TypedItem("VS_H", gen.Fields{S: "", HV: 3}, false),
		gen.StrItem("k"),
	}},
	{"unicode", []gen.ItemSpec{gen.StrItem("\u4e16\u754c"), gen.StrItem("e\u0301\u200b"), gen.StrItem("\xff\xc3"), gen.StrItem("\U0001F468\u200d\U0001F469\u200d\U0001F467")}},
	{"empty", []gen.ItemSpec{gen.StrItem(""), {K: "nil"}, gen.TypedItem("VS_HW", gen.Fields{S: "", HV: 2, WV: 3}, false), {K: "rune", Num: 'r'}}},
}

func c09SeqCount(maxLen int) int {
	n, p := 0, 1
	for l := 0; l <= maxLen; l++ {
		n += p
		p *= c09NOps
	}
	return n
}

// decode index -> sequence of ops (shortlex order)
func c09Decode(i int) []int {
	l, p := 0, 1
	for i >= p {
		i -= p
		p *= c09NOps
		l++
	}
	seq := make([]int, l)
	for k := l - 1; k >= 0; k-- {
		seq[k] = i % c09NOps
		i /= c09NOps
	}
	return seq
}

func init() {
	nf := len(c09Flavours)
	register(&Prop{
		ID:    "C09",
		Level: "exploration",
		Rule: "phase 0 (exhaustive): every sequence of up to L building operations (L=3 quick, L=5 thorough) over the 13-operation alphabet {AddHeaders(0|1|2 items), AddRowItems(0|1|3), AddSeparator, AppendNewRow, Add on the last row handle, AddRow(prebuilt 0|2 cells), Add on AllRows()[last] (possibly a separator), AddRow(NewRowSizedFor+1)} crossed with 6 item flavours (plain, multi-line, declared size below/above actual, unicode/invalid, empty/nil/rune), each table then put under one of five legal configurations (none; default right; default centre; two columns right/centre; left + centre + skipable default + last column right); " +
			"phase 1 (exhaustive): all sequences of length L+1 for the flavour whose items declare less than they have (and, in quick, the plain flavour); phase 3: tables of 150-2100 rows (separators, empty and ragged rows, one of the six item flavours) rendered through all routes while runtime.GOMAXPROCS is 1, 2, 3 or the number of CPUs; phase 2: random sequences of up to 40 operations with items from the whole item zoo, one item in 15 being an item that holds a table of its own and renders it (as text from String, as JSON from MarshalJSON) when the outer table is rendered. phase 4: random sequences of up to 30 operations on a table that carries a table-level add-time row callback (an auditor printing the table as it grows) which renders the table, as it is at that moment inside AddRow, through every direct route, and again through all routes once built. Every resulting table is rendered through csv/html/json/markdown wrappers, a text wrapper under every registered decoration (the six built-ins plus one complete and seven partially filled, never Populate()d decorations registered by the check), and (for every 8th sequence of the exhaustive phases and all random ones) auto.Render for every listed style, under a panic guard; all routes render the same table object one after the other in an order that varies from case to case. " +
			"Distinct = distinct (sequence, flavour) pairs; non-trivial = the table has at least one row or header.",
		Assumptions: []string{
			"tables are built through the public building API only (custom Table implementations that misreport NColumns are outside the statement)",
			"declared sizes lie in [-3,40]; an item declaring a huge height makes any renderer allocate that much, which is the item's doing",
			"alignment / skipable property values of the wrong type are outside the statement (documented panics)",
		},
		Phases: []Phase{
			{Name: "all build sequences up to length L (3 quick, 5 thorough) x 6 flavours", Exhaustive: true,
				N: func(th bool) int {
					if th {
						return c09SeqCount(5) * nf
					}
					return c09SeqCount(3) * nf
				}, Run: func(c *Ctx, i int, r *gen.R) { c09Exh(c, i/nf, i%nf) }},
			{Name: "all build sequences of length L+1 (4 quick, 6 thorough) for the flavours 'plain' (quick only) and 'declares less than it has'", Exhaustive: true,
				N: func(th bool) int {
					if th {
						return c09SeqCount(6) - c09SeqCount(5)
					}
					return (c09SeqCount(4) - c09SeqCount(3)) * 2
				}, Run: func(c *Ctx, i int, r *gen.R) {
					if c.Thorough {
						c09Exh(c, c09SeqCount(5)+i, 2)
					} else {
						c09Exh(c, c09SeqCount(3)+i/2, []int{0, 2}[i%2])
					}
				}},
			{Name: "random sequences up to 40 operations, whole item zoo", N: Fixed(3000, 300000), Run: c09Random},
			{Name: "long tables (150-2100 rows) while the program runs with GOMAXPROCS set to 1, 2, 3 and the number of CPUs", N: Fixed(48, 480), Run: c09Long},
			{Name: "random sequences up to 30 operations on a table whose add-time row callback renders it through every direct route each time a row arrives", N: Fixed(400, 20000), Run: c09Auditor},
		},
	})
}

type c09Builder struct {
	t       *tabular.ATable
	last    *tabular.Row
	nextIt  func() interface{}
	applied []string
}

func (b *c09Builder) apply(op int) {
	t := b.t
	x := b.nextIt
	switch op {
	case 0:
		t.AddHeaders()
	case 1:
		t.AddHeaders(x())
	case 2:
		t.AddHeaders(x(), x())
	case 3:
		t.AddRowItems()
	case 4:
		t.AddRowItems(x())
	case 5:
		t.AddRowItems(x(), x(), x())
	case 6:
		t.AddSeparator()
	case 7:
		b.last = t.AppendNewRow()
	case 8:
		if b.last == nil {
			b.last = t.AppendNewRow()
		}
		b.last.Add(tabular.NewCell(x()))
	case 9:
		r := tabular.NewRow()
		t.AddRow(r)
		b.last = r
	case 10:
		r := tabular.NewRow()
		r.Add(tabular.NewCell(x())).Add(tabular.NewCell(x()))
		t.AddRow(r)
		b.last = r
	case 11:
		rows := t.AllRows()
		if len(rows) > 0 {
			rows[len(rows)-1].Add(tabular.NewCell(x()))
		}
	case 12:
		r := t.NewRowSizedFor()
		r.Add(tabular.NewCell(x()))
		t.AddRow(r)
		b.last = r
	}
}

// c09Configure puts one of five legal configurations in force (alignments of the right type on column 0 and on
// columns, the skipable flag): totality is claimed for every table, configured or not.
var c09ConfigNames = []string{"none", "column 0 (default) right", "column 0 (default) centre", "column 1 right, column 2 centre", "column 0 left, column 1 centre, column 0 skipable, last column right"}

func c09Configure(t tabular.Table, cfg int) string {
	cfg %= len(c09ConfigNames)
	set := func(n int, k, v interface{}) {
		if n <= t.NColumns() {
			t.Column(n).SetProperty(k, v)
		}
	}
	switch cfg {
	case 1:
		set(0, align.PropertyType, align.Right)
	case 2:
		set(0, align.PropertyType, align.Center)
	case 3:
		set(1, align.PropertyType, align.Right)
		set(2, align.PropertyType, align.Center)
	case 4:
		set(0, align.PropertyType, align.Left)
		set(1, align.PropertyType, align.Center)
		set(0, properties.Skipable, true)
		set(t.NColumns(), align.PropertyType, align.Right)
	}
	return c09ConfigNames[cfg]
}

func c09Exh(c *Ctx, seqIdx, flavour int) {
	seq := c09Decode(seqIdx)
	fl := c09Flavours[flavour]
	names := make([]string, len(seq))
	for k, op := range seq {
		names[k] = c09OpNames[op]
	}
	desc := map[string]interface{}{"ops": names, "flavour": fl.name, "items_cycled": fl.items}
	c.Case = desc
	k := 0
	b := &c09Builder{t: tabular.New(), nextIt: func() interface{} {
		it := fl.items[k%len(fl.items)].Make().Item
		k++
		return it
	}}
	for _, op := range seq {
		b.apply(op)
	}
	desc["configuration"] = c09Configure(b.t, seqIdx/3+flavour)
	sig := gen.Hash64(fmt.Sprint(seq), fl.name)
	c.Rec.Eval(sig, len(seq) > 0)
	if c.Rec.WantSample() && len(seq) >= 3 {
		c.Rec.Sample(desc)
	}
	c09RenderAll(c, b.t, desc, seqIdx%8 == 0, uint64(seqIdx)*7+uint64(flavour))
}

func c09Random(c *Ctx, i int, r *gen.R) {
	n := r.Range(1, 40)
	if r.Chance(1, 2) {
		n = r.Range(1, 10)
	}
	fam := gen.FAscii | gen.FNewline | gen.FWide | gen.FCombining | gen.FZero | gen.FEmoji | gen.FInvalid | gen.FCSV | gen.FHTML | gen.FMD | gen.FCR | gen.FNUL | gen.FSGR | gen.FEdge
	var specs []gen.ItemSpec
	b := &c09Builder{t: tabular.New()}
	b.nextIt = func() interface{} {
		if r.Chance(1, 15) {
			// an item which renders a table of its own when asked for its text or its JSON form
			specs = append(specs, gen.StrItem("(an item holding a nested table)"))
			return newNestedTableItem(r.Word(), r.Word())
		}
		s := r.AnyItem(fam, 5, 2)
		specs = append(specs, s)
		return s.Make().Item
	}
	names := make([]string, n)
	seq := make([]int, n)
	desc := map[string]interface{}{}
	c.Case = desc
	for k := 0; k < n; k++ {
		seq[k] = r.Intn(c09NOps)
		names[k] = c09OpNames[seq[k]]
		desc["ops"] = names[:k+1]
		desc["items"] = specs
		b.apply(seq[k])
	}
	desc["items"] = specs
	desc["configuration"] = c09Configure(b.t, r.Intn(len(c09ConfigNames)))
	c.Rec.Eval(gen.Hash64(fmt.Sprint(seq), fmt.Sprint(len(specs))), true)
	c09RenderAll(c, b.t, desc, true, r.Uint64())
}

// c09Long: tables far longer than anything the other phases build, rendered while the program has the Go
// scheduler set to one, two, three or all processors (runtime.GOMAXPROCS is a setting any program may make, and
// GOMAXPROCS=1 is what a container with one CPU share gives): totality is claimed for every table whatever the
// process it is rendered in looks like.
func c09Long(c *Ctx, i int, r *gen.R) {
	sizes := []int{150, 191, 192, 193, 256, 300, 511, 512, 513, 1000, 1500, 2100}
	nrows := sizes[i%len(sizes)]
	procs := []int{1, 2, 3, runtime.NumCPU()}[(i/len(sizes))%4]
	fl := c09Flavours[r.Intn(len(c09Flavours))]
	ncols := r.Range(1, 4)
	desc := map[string]interface{}{"rows": nrows, "columns": ncols, "flavour": fl.name, "GOMAXPROCS_during_the_renders": procs, "NumCPU": runtime.NumCPU()}
	c.Case = desc
	k := 0
	next := func() interface{} {
		it := fl.items[k%len(fl.items)].Make().Item
		k++
		return it
	}
	t := tabular.New()
	if r.Chance(3, 4) {
		hs := make([]interface{}, ncols)
		for j := range hs {
			hs[j] = fmt.Sprintf("h%d", j)
		}
		t.AddHeaders(hs...)
	}
	for n := 0; n < nrows; n++ {
		switch {
		case r.Chance(1, 40):
			t.AddSeparator()
		case r.Chance(1, 30):
			t.AddRowItems()
		default:
			m := ncols
			if r.Chance(1, 10) {
				m = r.Range(0, ncols+1)
			}
			its := make([]interface{}, m)
			for j := range its {
				if r.Chance(1, 3) {
					its[j] = next()
				} else {
					its[j] = n*10 + j
				}
			}
			t.AddRowItems(its...)
		}
	}
	desc["configuration"] = c09Configure(t, r.Intn(len(c09ConfigNames)))
	c.Rec.Eval(gen.Hash64("long", fmt.Sprint(nrows, procs, fl.name, ncols)), true)
	c.Rec.Count(fmt.Sprintf("detail:long_tables_rendered_with_GOMAXPROCS=%d", procs), 1)
	c.Rec.Max("max:rows_in_one_table", int64(nrows))
	old := runtime.GOMAXPROCS(procs)
	defer runtime.GOMAXPROCS(old)
	c09RenderAll(c, t, desc, i%4 == 0, r.Uint64())
}

var c09RegisterOnce sync.Once

// c09RegisterDecorations adds application-registered decorations to this process's registry, so that
// "every registered decoration" is more than the six built-ins: complete custom ones and
// partially filled ones which were never completed with Populate (only some glyph fields set).
func c09RegisterDecorations() {
	c09RegisterOnce.Do(func() {
		full := decoration.Decoration{Horizontal: "=", Vertical: ":", CrossPiece: "*"}
		full.Populate()
		decoration.RegisterDecorationName("c09-custom-complete", full)
		for name, d := range map[string]decoration.Decoration{
			"c09-partial-inner-divider-only": {VBodyInner: "|"},
			"c09-partial-border-only":        {VBodyBorder: "#"},
			"c09-partial-horizontal-only":    {Horizontal: "-"},
			"c09-partial-header-and-inner":   {VHeader: "!", VBodyInner: "|"},
			"c09-partial-crosspiece-only":    {CrossPiece: "+"},
			"c09-partial-rules-no-verticals": {HOuter: "=", HRule: "-", TopLeft: "/", TopRight: "\\", BottomLeft: "\\", BottomRight: "/"},
			"c09-partial-right-border-only":  {VBodyBorder: "", VHeader: ">", HBRight: "]"},
		} {
			decoration.RegisterDecorationName(name, d)
		}
	})
}

func c09RenderAll(c *Ctx, t tabular.Table, desc map[string]interface{}, withAuto bool, order uint64) {
	c09RegisterDecorations()
	routes := DirectRoutes()
	if withAuto {
		routes = append(routes, AutoRoutes()...)
	}
	// all routes render the SAME table one after the other: the order is varied from case to case
	// (a render may leave state on the table which only a particular later render trips over)
	x := order*6364136223846793005 + 1442695040888963407
	for k := len(routes) - 1; k > 0; k-- {
		x = x*6364136223846793005 + 1442695040888963407
		j := int((x >> 33) % uint64(k+1))
		routes[k], routes[j] = routes[j], routes[k]
	}
	names := make([]string, len(routes))
	for k := range routes {
		names[k] = routes[k].Name
	}
	desc["render_order"] = names
	c09RenderRoutes(c, t, desc, routes, "")
}

// c09RenderRoutes renders t through every given route under a panic guard and applies the C09 oracle to each;
// when names what the table was in the middle of (empty: nothing, the table is at rest).
func c09RenderRoutes(c *Ctx, t tabular.Table, desc map[string]interface{}, routes []Route, when string) {
	for _, rt := range routes {
		var s string
		var err error
		c.Rec.Count("renders", 1)
		panicked, val, stack := Guard(func() { s, err = rt.Render(t) })
		d := map[string]interface{}{"route": rt.Name, "table": desc}
		if when != "" {
			d["rendered_while"] = when
		}
		if panicked {
			site := PanicSite(stack)
			c.Rec.Count("panics", 1)
			c.Rec.ViolateStack("panic@"+site, fmt.Sprintf("%s panicked: %v", rt.Name, val), d, stack)
			continue
		}
		if err != nil {
			c.Rec.Count("renders_returning_error", 1)
			if s != "" {
				c.Rec.Violate("text-with-error:"+rt.Format, fmt.Sprintf("%s returned an error (%v) together with %d bytes of text", rt.Name, err, len(s)), d)
			}
		} else {
			c.Rec.Count("renders_returning_text", 1)
			if strings.HasPrefix(rt.Format, "text:utf8-") && s == "" {
				c.Rec.Violate("empty-output-no-error:"+rt.Format, fmt.Sprintf("%s returned neither text nor an error", rt.Name), d)
			}
		}
	}
}

// c09Auditor: a table whose owner registered a table-level add-time row callback that prints the table each time a
// row arrives (a progress display, an auditor).  The table the callback sees is one "built through the public API":
// AddRow has attached the row and is running the callbacks the API documents.  Every direct route must return text or
// an error on it, as on any other table; arriving rows are often wider than the table so far.
func c09Auditor(c *Ctx, i int, r *gen.R) {
	n := r.Range(1, 30)
	if r.Chance(1, 2) {
		n = r.Range(1, 8)
	}
	fam := gen.FAscii | gen.FNewline | gen.FWide | gen.FCombining | gen.FZero | gen.FEmoji | gen.FInvalid | gen.FCSV | gen.FHTML | gen.FMD | gen.FEdge
	var specs []gen.ItemSpec
	desc := map[string]interface{}{}
	c.Case = desc
	t := tabular.New()
	b := &c09Builder{t: t}
	b.nextIt = func() interface{} {
		s := r.AnyItem(fam, 5, 2)
		specs = append(specs, s)
		return s.Make().Item
	}
	c09RegisterDecorations()
	routes := DirectRoutes()
	arrivals := 0
	busy := false
	t.RegisterPropertyCallback(t, tabular.CB_AT_ADD, tabular.CB_ON_ROW, cbFunc(func(o tabular.PropertyOwner) error {
		if busy {
			return nil
		}
		busy = true
		defer func() { busy = false }()
		arrivals++
		c.Rec.Count("detail:renders_started_from_inside_an_add_time_row_callback", int64(len(routes)))
		c09RenderRoutes(c, t, desc, routes, fmt.Sprintf("AddRow is running the table's add-time row callbacks for arriving row %d", arrivals))
		return nil
	}))
	names := make([]string, n)
	seq := make([]int, n)
	for k := 0; k < n; k++ {
		seq[k] = r.Intn(c09NOps)
		names[k] = c09OpNames[seq[k]]
		desc["ops"] = names[:k+1]
		desc["items"] = specs
		b.apply(seq[k])
	}
	desc["items"] = specs
	desc["configuration"] = c09Configure(t, r.Intn(len(c09ConfigNames)))
	c.Rec.Eval(gen.Hash64("auditor", fmt.Sprint(seq), fmt.Sprint(len(specs))), arrivals > 0)
	c.Rec.Max("max:row_arrivals_audited_in_one_table", int64(arrivals))
	c09RenderAll(c, t, desc, i%8 == 0, r.Uint64())
}
