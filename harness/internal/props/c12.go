package props

import (
	"fmt"
	"io"
	"reflect"
	"runtime"
	"strings"
	"unsafe"

	"go.pennock.tech/tabular"
	"go.pennock.tech/tabular/csv"
	"go.pennock.tech/tabular/properties"
	"go.pennock.tech/tabular/properties/align"
	"go.pennock.tech/tabular/texttable"

	"verifharness/internal/gen"
)

// C12 - properties behave as an independent key-to-value map for each owner.
//
// Monitor: reference model map[owner]map[key]value; after EVERY step every
// (owner, key) pair seen so far is read back through every accessor of the
// owner and compared.

type c12Named1 int
type c12Named2 int
type c12KS struct{ A int }

var (
	c12PtrA = &c12KS{1}
	c12PtrB = &c12KS{1}
)

// pointer keys of different types that hold the SAME address: a struct and its first field, an array and its
// element 0, two field-less types (which all live at the runtime's zero base).  Keys are distinguished by type as
// well as value, so these are different keys.
type c12Outer struct {
	First c12KS
	Rest  int
}
type c12MarkA struct{}
type c12MarkB struct{}

var (
	c12OuterV = &c12Outer{}
	c12ArrV   = &[2]int{1, 2}
)

// the key universe: equal values of distinct types, pointers, structs, library keys
var c12Keys = []interface{}{
	c12OuterV, &c12OuterV.First, c12ArrV, &c12ArrV[0], &c12MarkA{}, &c12MarkB{},
	int(1), int64(1), uint8(1), c12Named1(1), c12Named2(1), "1", float64(1), true,
	c12PtrA, c12PtrB, c12KS{1}, [2]int{1, 1},
	align.PropertyType, properties.Skipable, rune('1'), "a", "b", "c",
	// a key of every other comparable kind, alone and inside structs and arrays: anything Go can compare is a key
	complex128(1), complex64(1), float32(1), uintptr(1), int8(1), int16(1), int32(2), uint16(1), uint32(1), uint64(1),
	(*c12MarkA)(nil), (*c12MarkB)(nil), (chan int)(nil), unsafe.Pointer(nil), (*int)(nil), // typed nils are keys like any other: distinct by type
	c12Chan, (<-chan int)(c12Chan), unsafe.Pointer(c12ArrV), c12WithChan{"job", c12Done}, [2]complex128{1, 1}, c12Boxed{1}, c12Boxed{"1"}, [1]interface{}{int8(1)},
}

type c12WithChan struct {
	name string
	done chan struct{}
}

type c12Boxed struct{ v interface{} }

var (
	c12Chan = make(chan int)
	c12Done = make(chan struct{})
)

// c12KeyName prints a key without any address in it.
func c12KeyName(k interface{}) string {
	switch x := k.(type) {
	case chan int:
		return fmt.Sprintf("%T(nil=%v)", k, x == nil)
	case unsafe.Pointer:
		return fmt.Sprintf("%T(nil=%v)", k, x == nil)
	case <-chan int, c12WithChan:
		return fmt.Sprintf("%T(one fixed value)", k)
	}
	return fmt.Sprintf("%T(%v)", k, k)
}

type c12Owner struct {
	name     string
	acc      func() []tabular.PropertyOwner // every way of addressing this owner right now
	m        map[interface{}]interface{}
	isCell   bool
	cellCopy *tabular.Cell // for by-value copies
}

type c12State struct {
	c      *Ctx
	r      *gen.R
	t      *tabular.ATable
	owners []*c12Owner
	colOwn map[int]*c12Owner
	colH   map[int][]tabular.PropertyOwner // captured handles per column index
	rows   []*tabular.Row
	log    []string
	reads  int64
	serial int
}

func (s *c12State) say(f string, a ...interface{}) { s.log = append(s.log, fmt.Sprintf(f, a...)) }

func (s *c12State) addOwner(o *c12Owner) *c12Owner {
	if o.m == nil {
		o.m = map[interface{}]interface{}{}
	}
	s.owners = append(s.owners, o)
	return o
}

func (s *c12State) syncColumns() {
	for n := 0; n <= s.t.NColumns(); n++ {
		if s.colOwn[n] != nil {
			continue
		}
		n := n
		s.colOwn[n] = s.addOwner(&c12Owner{name: fmt.Sprintf("column %d", n), acc: func() []tabular.PropertyOwner {
			out := []tabular.PropertyOwner{s.t.Column(n)}
			return append(out, s.colH[n]...)
		}})
	}
}

func (s *c12State) addRowOwner(row *tabular.Row, label string) {
	s.rows = append(s.rows, row)
	s.addOwner(&c12Owner{name: label, acc: func() []tabular.PropertyOwner { return []tabular.PropertyOwner{row} }})
}

// live cell owner: addressed by (row handle, index); accessors re-derived on every use
func (s *c12State) addCellOwner(row *tabular.Row, idx int, label string, snapshot map[interface{}]interface{}) *c12Owner {
	o := &c12Owner{name: label, isCell: true, m: map[interface{}]interface{}{}}
	for k, v := range snapshot {
		o.m[k] = v
	}
	o.acc = func() []tabular.PropertyOwner {
		out := []tabular.PropertyOwner{&row.Cells()[idx]}
		if loc := row.Cells()[idx].Location(); loc.Row > 0 {
			if p, err := s.t.CellAt(loc); err == nil {
				out = append(out, p)
			}
		}
		return out
	}
	return s.addOwner(o)
}

// values whose identity is not their content: two closures of one function literal, method values of two
// receivers, distinct pointers to equal structs, equal maps and slices with storage of their own.  The value a get
// returns must be the one set last - the very object, not one that looks like it.
type c12Recv struct{ n int }

func (x *c12Recv) Get() int { return x.n }

func c12Closure(n int) func() int { return func() int { return n } }

// c12SameValue compares what a get returned with what the reference map holds: by identity for reference kinds
// (functions are told apart by calling them: each returns the serial it was made with), by content otherwise.
func c12SameValue(a, b interface{}) bool {
	if a == nil || b == nil {
		return a == nil && b == nil
	}
	va, vb := reflect.ValueOf(a), reflect.ValueOf(b)
	if va.Type() != vb.Type() {
		return false
	}
	switch va.Kind() {
	case reflect.Func:
		fa, ok1 := a.(func() int)
		fb, ok2 := b.(func() int)
		if ok1 && ok2 && (fa == nil || fb == nil) {
			return fa == nil && fb == nil
		}
		return ok1 && ok2 && fa() == fb()
	case reflect.Ptr, reflect.Map, reflect.Chan:
		return va.Pointer() == vb.Pointer()
	case reflect.Slice:
		if va.Len() != vb.Len() || (va.Len() > 0 && va.Pointer() != vb.Pointer()) {
			return false
		}
	}
	return reflect.DeepEqual(a, b)
}

// c12Describe prints a value for the history without any address in it.
func c12Describe(v interface{}) string {
	if v == nil {
		return "nil"
	}
	switch x := v.(type) {
	case func() int:
		if x == nil {
			return "a nil func() int"
		}
		return fmt.Sprintf("func() int returning %d (one of many closures of the same literal / method values of the same method)", x())
	case *c12KS:
		if x == nil {
			return "a nil *c12KS"
		}
		return fmt.Sprintf("a pointer of its own to %#v", *x)
	case *c12Recv:
		if x == nil {
			return "a nil *c12Recv"
		}
		return fmt.Sprintf("a pointer of its own to %#v", *x)
	case map[string]int:
		return fmt.Sprintf("a map of its own %v", x)
	case chan int:
		if x == nil {
			return "a nil chan int"
		}
		return "a channel of its own"
	}
	return fmt.Sprintf("%#v", v)
}

func (s *c12State) value() interface{} {
	r := s.r
	s.serial++
	switch r.Intn(15) {
	case 14:
		// typed nils: a value like any other (only the untyped nil removes a key)
		return gen.Pick(r, []interface{}{(*c12KS)(nil), []string(nil), map[string]int(nil), (func() int)(nil), (chan int)(nil), (*c12Recv)(nil)})
	case 9:
		return c12Closure(s.serial)
	case 10:
		return (&c12Recv{s.serial}).Get
	case 11:
		return &c12KS{r.Intn(2)}
	case 12:
		return map[string]int{"k": r.Intn(2)}
	case 13:
		if r.Bool() {
			return make(chan int)
		}
		return &c12Recv{r.Intn(2)}
	case 0:
		return nil
	case 1:
		return r.Intn(5)
	case 2:
		return fmt.Sprintf("v%d", r.Intn(50))
	case 3:
		return gen.Pick(r, c12Keys) // a value equal to some key
	case 4:
		return []int{r.Intn(3)}
	case 5:
		return align.Right
	case 6:
		return c12KS{r.Intn(3)}
	case 7:
		return false
	default:
		return int64(r.Intn(1000))
	}
}

func (s *c12State) set(o *c12Owner, key, val interface{}, via string) (string, string) {
	accs := o.acc()
	a := accs[s.r.Intn(len(accs))]
	s.say("%s.SetProperty(%s, %s)%s", o.name, c12KeyName(key), c12Describe(val), via)
	if err := a.SetProperty(key, val); err != nil {
		return "SetProperty-error", fmt.Sprintf("%s.SetProperty(%s, %s) returned %v", o.name, c12KeyName(key), c12Describe(val), err)
	}
	if val == nil {
		delete(o.m, key)
	} else {
		o.m[key] = val
	}
	return "", ""
}

func (s *c12State) check() (string, string) {
	for _, o := range s.owners {
		for ai, a := range o.acc() {
			for _, k := range c12Keys {
				got := a.GetProperty(k)
				s.reads++
				want := o.m[k]
				if !c12SameValue(got, want) {
					kind := "owner"
					switch {
					case o.cellCopy != nil:
						kind = "cell-copy"
					case o.isCell:
						kind = "live-cell"
					case len(o.name) > 6 && o.name[:6] == "column":
						kind = "column"
						if ai > 0 {
							kind = "column-via-earlier-handle"
						}
					}
					return "get-mismatch:" + kind, fmt.Sprintf("%s (accessor %d).GetProperty(%s) = %s, the value most recently set is %s", o.name, ai, c12KeyName(k), c12Describe(got), c12Describe(want))
				}
			}
		}
	}
	return "", ""
}

func (s *c12State) liveCells() []*c12Owner {
	var out []*c12Owner
	for _, o := range s.owners {
		if o.isCell {
			out = append(out, o)
		}
	}
	return out
}

func (s *c12State) step() (string, string) {
	r, t := s.r, s.t
	switch r.Intn(19) {
	case 18:
		// a cell that carries properties is used as the ITEM of a new cell (NewCell(c), AddRowItems(.., c)): the new
		// cell shows the inner cell's text, but it is a new owner and starts with nothing set
		cs := s.liveCells()
		if len(cs) == 0 {
			return "", ""
		}
		src := cs[r.Intn(len(cs))]
		var inner tabular.Cell
		if src.cellCopy != nil {
			inner = *src.cellCopy
		} else {
			inner = *(src.acc()[0].(*tabular.Cell))
		}
		outer := tabular.NewCell(inner)
		po := &outer
		o := &c12Owner{name: fmt.Sprintf("new cell#%d whose item is a copy of (%s)", len(s.owners), src.name), isCell: true, cellCopy: po, m: map[interface{}]interface{}{}}
		o.acc = func() []tabular.PropertyOwner { return []tabular.PropertyOwner{po} }
		s.addOwner(o)
		s.say("%s := NewCell(that cell)", o.name)
	case 17:
		// other things a program does to an owner between a set and a get: a cell is asked to re-read its item
		// (the documented step after mutating an item); none of that is a property operation
		cs := s.liveCells()
		if len(cs) == 0 {
			return "", ""
		}
		o := cs[r.Intn(len(cs))]
		s.say("%s .Update()", o.name)
		if o.cellCopy != nil {
			o.cellCopy.Update()
		} else {
			for _, a := range o.acc() {
				a.(*tabular.Cell).Update()
				break
			}
		}
	case 0, 1, 2, 3, 4, 5, 6:
		o := s.owners[r.Intn(len(s.owners))]
		if r.Chance(1, 3) {
			if cs := s.liveCells(); len(cs) > 0 {
				o = cs[r.Intn(len(cs))]
			}
		}
		key := gen.Pick(r, c12Keys)
		if r.Chance(1, 2) {
			key = gen.Pick(r, c12Keys[len(c12Keys)-3:]) // concentrate on a, b, c so chains share keys
			if r.Chance(1, 4) {
				key = gen.Pick(r, c12Keys[:6]) // or on the same-address pointer pairs
			}
		}
		return s.set(o, key, s.value(), "")
	case 7:
		// copy a cell by value: a new owner starting from a snapshot
		cs := s.liveCells()
		if len(cs) == 0 {
			return "", ""
		}
		src := cs[r.Intn(len(cs))]
		var cp tabular.Cell
		if src.cellCopy != nil {
			cp = *src.cellCopy
		} else {
			cp = *(src.acc()[0].(*tabular.Cell))
		}
		pc := &cp
		o := &c12Owner{name: fmt.Sprintf("copy#%d of (%s)", len(s.owners), src.name), isCell: true, cellCopy: pc, m: map[interface{}]interface{}{}}
		for k, v := range src.m {
			o.m[k] = v
		}
		o.acc = func() []tabular.PropertyOwner { return []tabular.PropertyOwner{pc} }
		s.addOwner(o)
		s.say("%s := by-value copy", o.name)
	case 16:
		// by-value copies of a column and of a row: new owners starting from a snapshot
		if r.Bool() {
			n := r.Range(0, t.NColumns())
			src := s.colOwn[n]
			cc := *t.Column(n)
			pc := &cc
			o := &c12Owner{name: fmt.Sprintf("by-value copy#%d of column %d", len(s.owners), n), m: map[interface{}]interface{}{}}
			for k, v := range src.m {
				o.m[k] = v
			}
			o.acc = func() []tabular.PropertyOwner { return []tabular.PropertyOwner{pc} }
			s.addOwner(o)
			s.say("%s", o.name)
		} else if len(s.rows) > 0 {
			ri := r.Intn(len(s.rows))
			var src *c12Owner
			for _, o := range s.owners {
				if !o.isCell && len(o.acc()) == 1 && o.acc()[0] == tabular.PropertyOwner(s.rows[ri]) {
					src = o
				}
			}
			if src == nil {
				return "", ""
			}
			rc := *s.rows[ri]
			pr := &rc
			o := &c12Owner{name: fmt.Sprintf("by-value copy#%d of (%s)", len(s.owners), src.name), m: map[interface{}]interface{}{}}
			for k, v := range src.m {
				o.m[k] = v
			}
			o.acc = func() []tabular.PropertyOwner { return []tabular.PropertyOwner{pr} }
			s.addOwner(o)
			s.say("%s", o.name)
		}
	case 8:
		// capture a column handle now, to be used after later growth
		n := r.Range(0, t.NColumns())
		s.colH[n] = append(s.colH[n], t.Column(n))
		s.say("h := t.Column(%d)   (handle kept)", n)
	case 9, 10:
		// grow the table: a row wider than anything so far (re-allocates the column bookkeeping)
		w := t.NColumns() + r.Range(1, 6)
		if w > 40 {
			w = r.Range(1, 5)
		}
		items := make([]interface{}, w)
		for i := range items {
			items[i] = fmt.Sprintf("c%d", i)
		}
		t.AddRowItems(items...)
		rows := t.AllRows()
		row := rows[len(rows)-1]
		s.say("t.AddRowItems(%d items)", w)
		s.addRowOwner(row, fmt.Sprintf("row %d", len(rows)))
		s.syncColumns()
		s.addCellOwner(row, 0, fmt.Sprintf("cell(%d,1)", len(rows)), nil)
		if w > 1 {
			s.addCellOwner(row, w-1, fmt.Sprintf("cell(%d,%d)", len(rows), w), nil)
		}
	case 11:
		// a cell that gets properties BEFORE it is added: the stored cell and the caller's variable share chain links
		cell := tabular.NewCell("pre")
		pc := &cell
		pre := map[interface{}]interface{}{}
		nk := r.Range(1, 4)
		for i := 0; i < nk; i++ {
			k := gen.Pick(r, c12Keys[len(c12Keys)-3:])
			v := fmt.Sprintf("pre%d", i)
			pc.SetProperty(k, v)
			pre[k] = v
		}
		row := t.AppendNewRow()
		row.Add(cell)
		rows := t.AllRows()
		s.say("c := NewCell; %d properties set on c; t.AppendNewRow().Add(c)", nk)
		s.addRowOwner(row, fmt.Sprintf("row %d", len(rows)))
		s.syncColumns()
		s.addCellOwner(row, 0, fmt.Sprintf("cell(%d,1)", len(rows)), pre)
		o := &c12Owner{name: fmt.Sprintf("caller's variable of cell(%d,1)", len(rows)), isCell: true, cellCopy: pc, m: pre}
		o.acc = func() []tabular.PropertyOwner { return []tabular.PropertyOwner{pc} }
		s.addOwner(o)
	case 12:
		// extend an attached row (its cells move to a new backing array sooner or later)
		if len(s.rows) == 0 {
			return "", ""
		}
		row := s.rows[r.Intn(len(s.rows))]
		if row.IsSeparator() {
			return "", ""
		}
		n := r.Range(1, 4)
		for i := 0; i < n; i++ {
			row.Add(tabular.NewCell("more"))
		}
		s.say("%d cells added to attached row %d", n, row.Location().Row)
		s.syncColumns()
	case 13:
		s.say("t.AddSeparator()")
		t.AddSeparator()
		rows := t.AllRows()
		s.addRowOwner(rows[len(rows)-1], fmt.Sprintf("separator row %d", len(rows)))
	case 14:
		s.say("render pass (csv + text: stores private measurement properties on cells)")
		if p, val, _ := Guard(func() {
			csv.Wrap(t).RenderTo(io.Discard)
			texttable.Wrap(t).RenderTo(io.Discard)
		}); p {
			// the history stores arbitrary values under the alignment key; a non-Alignment value there is a documented panic of the text renderer
			if msg := fmt.Sprint(val); strings.Contains(msg, "align.Alignment") || strings.Contains(msg, "unhandled alignment") {
				s.c.Rec.Count("renders_refused_by_panic_on_non-Alignment_value(outside every statement)", 1)
			} else {
				return "render-panics-in-property-history", fmt.Sprintf("a render pass panicked: %v", val)
			}
		}
	case 15:
		// set the same key again with the same or another value on the owner used most recently
		o := s.owners[r.Intn(len(s.owners))]
		key := gen.Pick(r, c12Keys)
		for i := 0; i < 3; i++ {
			if k, m := s.set(o, key, i, " (repeated)"); k != "" {
				return k, m
			}
		}
	}
	return "", ""
}

func c12History(c *Ctx, i int, r *gen.R) {
	s := &c12State{c: c, r: r, t: tabular.New(), colOwn: map[int]*c12Owner{}, colH: map[int][]tabular.PropertyOwner{}}
	desc := map[string]interface{}{}
	c.Case = desc
	s.addOwner(&c12Owner{name: "table", acc: func() []tabular.PropertyOwner { return []tabular.PropertyOwner{s.t} }})
	s.syncColumns()
	// start with a small table so that there are cells and columns to talk about
	s.t.AddHeaders("h1", "h2")
	s.t.AddRowItems("x", "y")
	s.syncColumns()
	rows := s.t.AllRows()
	s.addRowOwner(rows[0], "row 1")
	s.addCellOwner(rows[0], 0, "cell(1,1)", nil)
	s.addCellOwner(rows[0], 1, "cell(1,2)", nil)
	s.say("t := New(); AddHeaders(h1,h2); AddRowItems(x,y)")
	n := r.Range(10, 80)
	for k := 0; k < n; k++ {
		key, msg := s.step()
		desc["history"] = s.log
		if key == "" {
			key, msg = s.check()
		}
		if key != "" {
			c.Rec.Violate(key, fmt.Sprintf("after step %d (%s): %s", len(s.log), s.log[len(s.log)-1], msg), desc)
			break
		}
	}
	c.Rec.Eval(gen.Hash64(fmt.Sprint(s.log)), len(s.log) > 5)
	c.Rec.Count("steps", int64(len(s.log)))
	c.Rec.Count("property_reads_compared", s.reads)
	c.Rec.Max("max:owners_in_one_history", int64(len(s.owners)))
	if c.Rec.WantSample() && i%50 == 3 {
		l := s.log
		if len(l) > 25 {
			l = l[:25]
		}
		c.Rec.Sample(map[string]interface{}{"history_prefix": l, "owners": len(s.owners)})
	}
}

// ---- many keys on one owner: nothing in the statement bounds how many keys an owner may hold

func c12ManyKeys(c *Ctx, i int, r *gen.R) {
	sizes := []int{33, 40, 64, 65, 100, 257}
	N := sizes[i%len(sizes)]
	kind := (i / len(sizes)) % 5
	t := tabular.New()
	t.AddHeaders("h1", "h2")
	t.AddRowItems("x", "y")
	var owner tabular.PropertyOwner
	name := ""
	switch kind {
	case 0:
		owner, name = t, "table"
	case 1:
		owner, name = t.Column(0), "column 0"
	case 2:
		owner, name = t.Column(2), "column 2"
	case 3:
		owner, name = t.AllRows()[0], "row 1"
	default:
		p, _ := t.CellAt(tabular.CellLocation{Row: 1, Column: 2})
		owner, name = p, "cell (1,2)"
	}
	desc := map[string]interface{}{"owner": name, "keys": N}
	c.Case = desc
	c.Rec.Eval(gen.Hash64("manykeys", fmt.Sprint(N, kind)), true)
	key := func(k int) interface{} {
		if k%3 == 0 {
			return fmt.Sprintf("key-%d", k)
		}
		return 1000 + k
	}
	model := map[interface{}]interface{}{}
	var log []string
	verify := func(k int, when string) bool {
		c.Rec.Count("property_reads_compared", 1)
		got, want := owner.GetProperty(key(k)), model[key(k)]
		if got != want {
			desc["last_steps"] = log
			c.Rec.Violate("many-keys:get-differs:"+strings.Fields(name)[0], fmt.Sprintf("%s holding %d keys, %s: GetProperty(%v) = %v, the value most recently set is %v", name, N, when, key(k), got, want), desc)
			return false
		}
		return true
	}
	for k := 0; k < N; k++ {
		owner.SetProperty(key(k), k)
		model[key(k)] = k
	}
	for k := 0; k < N; k++ {
		if !verify(k, "after the initial sets") {
			return
		}
	}
	for step := 0; step < 3*N; step++ {
		k := r.Intn(N)
		what := ""
		switch r.Intn(3) {
		case 0:
			owner.SetProperty(key(k), nil)
			delete(model, key(k))
			what = fmt.Sprintf("SetProperty(%v, nil)", key(k))
		default:
			v := step*1000 + k
			owner.SetProperty(key(k), v)
			model[key(k)] = v
			what = fmt.Sprintf("SetProperty(%v, %d)", key(k), v)
		}
		if log = append(log, what); len(log) > 12 {
			log = log[1:]
		}
		if !verify(k, "after "+what) {
			return
		}
		for q := 0; q < 4; q++ {
			if !verify(r.Intn(N), "after "+what) {
				return
			}
		}
	}
	for k := 0; k < N; k++ {
		if !verify(k, "at the end of the history") {
			return
		}
	}
}

// ---- growth monitors

func c12Growth(c *Ctx, i int, r *gen.R) {
	t := tabular.New()
	t.AddHeaders("h1", "h2")
	t.AddRowItems("x", "y")
	row := t.AllRows()[0]
	cell, _ := t.CellAt(tabular.CellLocation{Row: 1, Column: 1})
	owners := []struct {
		name string
		o    tabular.PropertyOwner
		dump func() string
	}{
		{"table", t, func() string { return fmt.Sprintf("%#v", t) }},
		{"column 0", t.Column(0), func() string { return fmt.Sprintf("%#v", t) }},
		{"column 2", t.Column(2), func() string { return fmt.Sprintf("%#v", t) }},
		{"row", row, func() string { return fmt.Sprintf("%#v", row) }},
		{"cell", cell, func() string { return fmt.Sprintf("%#v", cell) }},
	}
	ow := owners[i%len(owners)]
	nk := 1 + (i/len(owners))%3
	keys := make([]interface{}, nk)
	for k := range keys {
		keys[k] = gen.Pick(r, c12Keys)
		for j := 0; j < k; j++ {
			if keys[j] == keys[k] {
				keys[k] = fmt.Sprintf("extra%d", k)
			}
		}
	}
	desc := map[string]interface{}{"owner": ow.name, "keys": fmt.Sprint(keys)}
	c.Case = desc
	round := func() {
		for _, k := range keys {
			ow.o.SetProperty(k, "value")
		}
	}
	round()
	round()
	before := ow.dump()
	for k := 0; k < 50; k++ {
		round()
	}
	after := ow.dump()
	c.Rec.Eval(gen.Hash64("growth", ow.name, fmt.Sprint(keys)), true)
	c.Rec.Count("growth_dump_comparisons", 1)
	if before != after {
		c.Rec.Violate("growth:dump-changes:"+ow.name, fmt.Sprintf("%%#v of the %s after setting %d key(s) 2x is %d bytes, after 50 more rounds %d bytes: stored state grows", ow.name, nk, len(before), len(after)), desc)
	}
}

// c12LongRuns: a get, then a run of sets with no get in between, then a get - for run lengths on both sides of
// every power of two up to 2^17 and some multiples of 2^16 (whatever a library counts per owner, it counts in
// some width).  The last get must report the value set last (or nothing, when the run began by removing the key
// and went on setting another).
func c12LongRuns(c *Ctx, i int, r *gen.R) {
	t := tabular.New()
	t.AddHeaders("h1", "h2")
	t.AddRowItems("x", "y")
	cell, _ := t.CellAt(tabular.CellLocation{Row: 1, Column: 1})
	owners := []tabular.PropertyOwner{t, t.Column(0), t.Column(2), t.AllRows()[0], cell}
	names := []string{"table", "column 0", "column 2", "row", "cell"}
	o, name := owners[i%len(owners)], names[i%len(owners)]
	variant := (i / len(owners)) % 3
	vname := []string{"every set of the run goes to the key read", "the run begins by removing the key read (set to nil) and goes on setting another key", "the sets of the run alternate between the key read and another"}[variant]
	desc := map[string]interface{}{"owner": name, "variant": vname}
	c.Case = desc
	c.Rec.Eval(gen.Hash64("longruns", name, fmt.Sprint(variant)), true)
	type lk struct{ n string }
	key, other := interface{}(&lk{"read"}), interface{}("another key")
	var lens []int
	for k := 1; k <= 17; k++ {
		lens = append(lens, 1<<uint(k)-1, 1<<uint(k), 1<<uint(k)+1)
	}
	lens = append(lens, 2<<16, 3<<16, 3<<16+1)
	serial := 0
	for _, L := range lens {
		serial++
		o.SetProperty(key, serial)
		if got := o.GetProperty(key); got != interface{}(serial) {
			c.Rec.Violate("long-run:get-before-the-run:"+strings.Fields(name)[0], fmt.Sprintf("%s: GetProperty right after SetProperty(key, %d) = %v", name, serial, got), desc)
			return
		}
		var want interface{}
		for k := 1; k <= L; k++ {
			serial++
			switch {
			case variant == 1 && k == 1:
				o.SetProperty(key, nil)
				want = nil
			case variant == 1, variant == 2 && k%2 == 0:
				o.SetProperty(other, serial)
			default:
				o.SetProperty(key, serial)
				want = serial
			}
		}
		c.Rec.Count("long_runs_of_sets_between_two_gets", 1)
		c.Rec.Max("max:sets_between_two_gets", int64(L))
		c.Rec.Count("property_reads_compared", 1)
		if got := o.GetProperty(key); got != want {
			desc["run_length"] = L
			c.Rec.Violate("long-run:get-differs:"+strings.Fields(name)[0], fmt.Sprintf("%s, %s: a get, then %d sets, then GetProperty(key) = %v; the value most recently set is %v", name, vname, L, got, want), desc)
			return
		}
	}
}

func c12Heap(c *Ctx, i int, r *gen.R) {
	t := tabular.New()
	t.AddRowItems("x")
	cell, _ := t.CellAt(tabular.CellLocation{Row: 1, Column: 1})
	owners := []tabular.PropertyOwner{t, t.Column(0), t.Column(1), t.AllRows()[0], cell}
	names := []string{"table", "column 0", "column 1", "row", "cell"}
	o := owners[i%len(owners)]
	desc := map[string]interface{}{"owner": names[i%len(owners)], "sets": 200000}
	c.Case = desc
	var m0, m1 runtime.MemStats
	for k := 0; k < 1000; k++ {
		o.SetProperty("k1", k)
		o.SetProperty("k2", k)
	}
	runtime.GC()
	runtime.GC()
	runtime.ReadMemStats(&m0)
	for k := 0; k < 100000; k++ {
		o.SetProperty("k1", k)
		o.SetProperty("k2", k)
	}
	runtime.GC()
	runtime.GC()
	runtime.ReadMemStats(&m1)
	grow := int64(m1.HeapAlloc) - int64(m0.HeapAlloc)
	c.Rec.Eval(gen.Hash64("heap", names[i%len(owners)]), true)
	c.Rec.Max("max:heap_growth_bytes_after_200k_sets", grow)
	if grow > 4<<20 {
		c.Rec.Violate("growth:heap", fmt.Sprintf("200000 repeated SetProperty calls on the %s raised the live heap by %d bytes (a one-link leak per set is >= 6 MB)", names[i%len(owners)], grow), desc)
	}
	runtime.KeepAlive(t)
}

func init() {
	register(&Prop{
		ID:    "C12",
		Level: "exploration",
		Rule: "phase 0: random histories of 10-80 steps over set / set-nil / repeated set / copy-cell-by-value / copy-column-by-value / copy-row-by-value / set properties on a cell before adding it / capture column handle / grow table (rows wider than the column bookkeeping's capacity) / extend attached row / add separator / render pass / Cell.Update / a property-carrying cell used as the item of a new cell, with a 42-key universe (a key of every comparable kind, also inside structs and arrays, incl. complex numbers, channels and unsafe.Pointer; (three pairs of pointer keys of different types holding the same address - struct and first field, array and element 0, two field-less types -, int(1), int64(1), uint8(1), two named ints, \"1\", float64(1), true, two distinct pointers to equal structs, a struct, an array, align.PropertyType, properties.Skipable, rune, \"a\",\"b\",\"c\"); after EVERY step all (owner, accessor, key) triples are read back and compared with the reference maps. " +
			"phase 1: 33-257 live keys on one owner. phase 2 (exhaustive over 5 owners x 3 arrangements): a get, a run of L sets without a get, a get - for L around every power of two up to 2^17 and 2x, 3x 2^16. phase 3 (exhaustive over 5 owners x 1-3 keys): %#v dump after 2 rounds of sets must equal the dump after 52 rounds. phase 4 (solo, shard 0): 200k repeated sets must not raise the live heap by more than 4 MB. " +
			"Distinct = distinct histories; non-trivial = more than 5 steps.",
		Assumptions: []string{
			"non-comparable and nil keys are documented panics and are not generated",
			"the longest run of sets between two gets is 196609: anything a library counts in 32 bits or more is out of reach of a run",
			"live cells are re-derived through the table/row after every step (a *Cell obtained earlier is not promised to stay live when its row grows); column handles ARE promised to stay live",
		},
		Phases: []Phase{
			{Name: "random property histories", N: Fixed(3000, 300000), Run: c12History},
			{Name: "33-257 live keys on one owner x 5 owner kinds, random set / set-nil / get histories", N: Fixed(30, 3000), Run: c12ManyKeys},
			{Name: "runs of 1 to 196609 sets between two gets (lengths around every power of two to 2^17) x 5 owner kinds x 3 arrangements", Exhaustive: true, N: Fixed(15, 15), Run: c12LongRuns},
			{Name: "repeated sets do not change the %#v dump", Exhaustive: true, N: Fixed(15, 15), Run: c12Growth},
			{Name: "repeated sets do not grow the heap", N: Fixed(5, 5), Run: c12Heap, Solo: true},
		},
	})
}
