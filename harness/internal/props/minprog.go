package props

import (
	"fmt"
	"sort"
	"strings"

	"go.pennock.tech/tabular"
	"go.pennock.tech/tabular/auto"
	"go.pennock.tech/tabular/csv"
	"go.pennock.tech/tabular/html"
	"go.pennock.tech/tabular/json"
	"go.pennock.tech/tabular/markdown"
	"go.pennock.tech/tabular/texttable"

	"verifharness/internal/gen"
)

// Programs that link only part of the library.  The harness itself imports every sub-package, so anything a
// package does in its init() - announcing itself to a registry, say - has always happened here; a program that
// imports only tabular/auto, or only one renderer, is the other end of that dimension.  cmd/minprog is built once
// per import set by run.sh; this file feeds it small tables and compares.

var c19Builtin = []string{"ascii-simple", "none", "utf8-double", "utf8-heavy", "utf8-light", "utf8-light-curved"}

// c19MinAuto (C19): in a program importing only tabular and tabular/auto the style listing is complete and sorted,
// every listed style is accepted and renders, in every case variant and with trailing sections, and an unknown
// style refuses.
func c19MinAuto(c *Ctx, i int, r *gen.R) {
	job := minTables[i%len(minTables)]
	styles := append([]string{"csv", "html", "json", "markdown", "texttable"}, c19Builtin...)
	var routes []string
	for _, st := range styles {
		routes = append(routes, "auto.New+Render:"+st, "auto.Render:"+st, "auto.Wrap+Render:"+st)
		switch st {
		case "csv", "html", "json", "markdown":
			// sub-package names are case-insensitive and ignore trailing sections (decoration names are exact)
			routes = append(routes, "auto.Render:"+strings.ToUpper(st), "auto.Render:"+strings.ToUpper(st[:1])+st[1:], "auto.New+Render:"+st+".trailing.sections")
		case "texttable":
			routes = append(routes, "auto.Render:TextTable", "auto.Render:TEXTTABLE")
		default:
			routes = append(routes, "auto.Render:texttable."+st, "auto.New+Render:TextTable."+st)
		}
	}
	routes = append(routes, "auto.Render:c19-no-such-style", "auto.New+Render:texttable.c19-nope")
	job.Routes = routes
	desc := map[string]interface{}{"program": "imports only go.pennock.tech/tabular and go.pennock.tech/tabular/auto", "table": job}
	c.Case = desc
	out, ok, err := runMinprog("auto", []MinJob{job})
	if !ok {
		c.Rec.Count("minimal_programs_unavailable(check started without run.sh)", 1)
		return
	}
	if err != nil {
		c.Rec.Violate("minimal-program-fails:auto-only", "the program importing only tabular and tabular/auto did not run to completion: "+err.Error(), desc)
		return
	}
	c.Rec.Eval(gen.Hash64("minauto", fmt.Sprint(i)), true)
	c.Rec.Count("minimal_program_runs", 1)
	if !sort.StringsAreSorted(out.Listing) {
		c.Rec.Violate("minimal-program:listing-unsorted", fmt.Sprintf("auto.ListStyles() in a program importing only auto is not sorted: %q", out.Listing), desc)
		return
	}
	have := map[string]bool{}
	for _, n := range out.Listing {
		have[n] = true
	}
	for _, st := range styles {
		if st != "texttable" && !have[st] {
			c.Rec.Violate("minimal-program:listing-incomplete", fmt.Sprintf("auto.ListStyles() in a program importing only auto lacks %q: %q", st, out.Listing), desc)
			return
		}
	}
	if len(out.Results) != 1 || len(out.Results[0]) != len(routes) {
		c.Rec.Violate("minimal-program-fails:auto-only", "the program importing only auto returned a malformed report", desc)
		return
	}
	for _, res := range out.Results[0] {
		c.Rec.Count("minimal_program_routes_checked", 1)
		unknown := strings.Contains(res.Route, "c19-no")
		if res.Panic != "" {
			c.Rec.Violate("minimal-program:panic:auto-only", fmt.Sprintf("in a program importing only auto, %s panicked: %s", res.Route, res.Panic), desc)
			return
		}
		if unknown {
			if res.Err == "" || res.Out != "" {
				c.Rec.Violate("minimal-program:unknown-style-renders", fmt.Sprintf("in a program importing only auto, %s rendered %q (error %q) instead of refusing", res.Route, res.Out, res.Err), desc)
				return
			}
			continue
		}
		if res.Err != "" || res.Out == "" {
			c.Rec.Violate("minimal-program:listed-style-does-not-render", fmt.Sprintf("in a program importing only tabular and tabular/auto, %s gives %q with error %q", res.Route, res.Out, res.Err), desc)
			return
		}
	}
}

// c10Min (C10): the same small tables rendered by programs that each link only one import set give the same bytes
// as the fully linked harness gives for the same calls.
func c10Min(c *Ctx, i int, r *gen.R) {
	progs := []string{"auto", "csv", "html", "json", "markdown", "text"}
	which := progs[i%len(progs)]
	job := minTables[(i/len(progs))%len(minTables)]
	type exp struct {
		route string
		f     func() (string, error)
	}
	mk := func() tabular.Table { t := tabular.New(); job.build(t); return t }
	var exps []exp
	switch which {
	case "auto":
		for _, st := range append([]string{"csv", "html", "json", "markdown", "texttable"}, c19Builtin...) {
			st := st
			exps = append(exps,
				exp{"auto.New+Render:" + st, func() (string, error) { t := auto.New(st); job.build(t); return t.Render() }},
				exp{"auto.Render:" + st, func() (string, error) { return auto.Render(mk(), st) }},
				exp{"auto.Wrap+Render:" + st, func() (string, error) { return auto.Wrap(mk(), st).Render() }})
		}
	case "csv":
		exps = []exp{{"New+Render", func() (string, error) { t := csv.New(); job.build(t); return t.Render() }}, {"Wrap+Render", func() (string, error) { return csv.Wrap(mk()).Render() }}}
	case "html":
		exps = []exp{{"New+Render", func() (string, error) { t := html.New(); job.build(t); return t.Render() }}, {"Wrap+Render", func() (string, error) { return html.Wrap(mk()).Render() }}}
	case "json":
		exps = []exp{{"New+Render", func() (string, error) { t := json.New(); job.build(t); return t.Render() }}, {"Wrap+Render", func() (string, error) { return json.Wrap(mk()).Render() }}}
	case "markdown":
		exps = []exp{{"New+Render", func() (string, error) { t := markdown.New(); job.build(t); return t.Render() }}, {"Wrap+Render", func() (string, error) { return markdown.Wrap(mk()).Render() }}}
	case "text":
		exps = []exp{{"New+Render", func() (string, error) { t := texttable.New(); job.build(t); return t.Render() }}, {"Wrap+Render", func() (string, error) { return texttable.Wrap(mk()).Render() }}}
		for _, n := range c19Builtin {
			n := n
			exps = append(exps, exp{"Wrap+SetDecorationNamed+Render:" + n, func() (string, error) {
				tt, err := texttable.Wrap(mk()).SetDecorationNamed(n)
				if err != nil {
					return "", err
				}
				return tt.Render()
			}})
		}
	}
	job.Routes = nil
	for _, e := range exps {
		job.Routes = append(job.Routes, e.route)
	}
	desc := map[string]interface{}{"program": "cmd/minprog built with tag min_" + which + " (links only that part of the library)", "table": job}
	c.Case = desc
	out, ok, err := runMinprog(which, []MinJob{job})
	if !ok {
		c.Rec.Count("minimal_programs_unavailable(check started without run.sh)", 1)
		return
	}
	if err != nil {
		c.Rec.Violate("minimal-program-fails:"+which, "the minimal program did not run to completion: "+err.Error(), desc)
		return
	}
	c.Rec.Eval(gen.Hash64("min", which, fmt.Sprint(i)), true)
	c.Rec.Count("minimal_program_runs", 1)
	if len(out.Results) != 1 || len(out.Results[0]) != len(exps) {
		c.Rec.Violate("minimal-program-fails:"+which, "the minimal program returned a malformed report", desc)
		return
	}
	for k, res := range out.Results[0] {
		want, werr := exps[k].f()
		c.Rec.Count("outputs_compared", 1)
		if res.Panic != "" {
			c.Rec.Violate("minimal-program:panic:"+which, fmt.Sprintf("in the program linking only %s, %s panicked: %s", which, res.Route, res.Panic), desc)
			return
		}
		if (res.Err != "") != (werr != nil) || res.Out != want {
			c.Rec.Violate("bytes-differ:minimal-program:"+which, fmt.Sprintf("%s in a program linking only %s gives %q (error %q); the same call in a program linking every sub-package gives %q (error %v)", res.Route, which, res.Out, res.Err, want, werr), desc)
			return
		}
	}
}
