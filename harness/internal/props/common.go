package props

import (
	"bufio"
	"bytes"
	stdjson "encoding/json"
	"fmt"
	"io"
	"os"
	"os/exec"
	"strings"

	"go.pennock.tech/tabular"
	"go.pennock.tech/tabular/auto"
	"go.pennock.tech/tabular/csv"
	"go.pennock.tech/tabular/html"
	"go.pennock.tech/tabular/json"
	"go.pennock.tech/tabular/markdown"
	"go.pennock.tech/tabular/properties/align"
	"go.pennock.tech/tabular/texttable"
	"go.pennock.tech/tabular/texttable/decoration"

	"verifharness/internal/gen"
)

// sliceOf lets the harness hold values of the library's unexported parameter
// types (callback times and targets), which is how an external caller can too.
func sliceOf[T any](xs ...T) []T { return xs }

// Route is one way of turning a table into text.
type Route struct {
	Name   string
	Format string // csv, html, json, markdown, text:<decoration>
	Render func(t tabular.Table) (string, error)
}

// DirectRoutes renders through the sub-package wrappers: the four non-text
// renderers and one text wrapper switched through every registered decoration.
func DirectRoutes() []Route {
	rs := []Route{
		{"csv.Wrap", "csv", func(t tabular.Table) (string, error) { return csv.Wrap(t).Render() }},
		{"html.Wrap", "html", func(t tabular.Table) (string, error) { return html.Wrap(t).Render() }},
		{"json.Wrap", "json", func(t tabular.Table) (string, error) { return json.Wrap(t).Render() }},
		{"markdown.Wrap", "markdown", func(t tabular.Table) (string, error) { return markdown.Wrap(t).Render() }},
		// wrappers the program makes itself: every wrapper type is an exported struct embedding the Table interface, all
		// of whose settings are exported fields - a composite literal (or a zero value whose Table is then set) is a
		// wrapper like any other, which renders or refuses
		{"&csv.CSVTable{Table: t} (composite literal)", "csv(literal)", func(t tabular.Table) (string, error) { return (&csv.CSVTable{Table: t}).Render() }},
		{"&html.HTMLTable{Table: t, Caption, Id, Class} (composite literal)", "html(literal)", func(t tabular.Table) (string, error) {
			return (&html.HTMLTable{Table: t, Caption: "c", Id: "i", Class: "k"}).Render()
		}},
		{"var ht html.HTMLTable; ht.Table = t (zero value)", "html(zero value)", func(t tabular.Table) (string, error) {
			var ht html.HTMLTable
			ht.Table = t
			return ht.Render()
		}},
		{"&json.JSONTable{Table: t} (composite literal)", "json(literal)", func(t tabular.Table) (string, error) { return (&json.JSONTable{Table: t}).Render() }},
		{"&markdown.MarkdownTable{Table: t} (composite literal)", "markdown(literal)", func(t tabular.Table) (string, error) { return (&markdown.MarkdownTable{Table: t}).Render() }},
		{"&texttable.TextTable{Table: t} (composite literal)", "text(literal)", func(t tabular.Table) (string, error) { return (&texttable.TextTable{Table: t}).Render() }},
		{"(&texttable.TextTable{Table: t}).SetDecoration(ASCIIBoxSimple())", "text(literal+decoration)", func(t tabular.Table) (string, error) {
			return (&texttable.TextTable{Table: t}).SetDecoration(decoration.ASCIIBoxSimple()).Render()
		}},
	}
	for _, name := range decoration.RegisteredDecorationNames() {
		name := name
		rs = append(rs, Route{"texttable.Wrap+" + name, "text:" + name, func(t tabular.Table) (string, error) {
			tt, err := texttable.Wrap(t).SetDecorationNamed(name)
			if err != nil {
				return "", err
			}
			return tt.Render()
		}})
	}
	return rs
}

// AutoRoutes renders through auto.Render for every listed style.
func AutoRoutes() []Route {
	var rs []Route
	for _, style := range auto.ListStyles() {
		style := style
		f := "text:" + style
		switch style {
		case "csv", "html", "json", "markdown":
			f = style
		}
		rs = append(rs, Route{"auto.Render:" + style, f, func(t tabular.Table) (string, error) { return auto.Render(t, style) }})
	}
	return rs
}

// callback times and targets, held by inference
var (
	cbTimes   = sliceOf(tabular.CB_AT_ADD, tabular.CB_AT_RENDER_PRECELL, tabular.CB_AT_RENDER, tabular.CB_AT_RENDER_POSTCELL)
	cbTargets = sliceOf(tabular.CB_ON_ITSELF, tabular.CB_ON_CELL, tabular.CB_ON_ROW)
)

var cbTimeNames = []string{"AT_ADD", "AT_RENDER_PRECELL", "AT_RENDER", "AT_RENDER_POSTCELL"}
var cbTargetNames = []string{"ON_ITSELF", "ON_CELL", "ON_ROW"}

// cbFunc adapts a function to tabular.PropertyCallback.
type cbFunc func(tabular.PropertyOwner) error

func (f cbFunc) UpdateProperties(o tabular.PropertyOwner) error { return f(o) }

// stage describes the "render, change, render again through the same wrapper"
// mode of the renderer checks: the wrapper is created before the table is
// built, a first render happens after At row operations under a different
// configuration, the build is completed, items are mutated to their final
// state (+Update), the final configuration is put in force (withdrawing
// settings that are unset in it), and only then the judged render is made.
// A stale cache anywhere between the first and the judged render shows up
// as a violation of the renderer's own property.
type stage struct {
	At        int
	More      []int // further intermediate render points (a third of the staged cases have 1-2 of them)
	PreAligns []int
	Note      string
}

// drawStage decides whether a case is staged (half of them are).
func drawStage(r *gen.R, nrows, ncols int) *stage {
	if !r.Chance(1, 2) {
		return nil
	}
	st := &stage{At: r.Range(0, nrows), PreAligns: make([]int, ncols+1)}
	if r.Chance(1, 3) {
		for k := r.Range(1, 2); k > 0; k-- {
			st.More = append(st.More, r.Range(0, nrows))
		}
	}
	for k := range st.PreAligns {
		st.PreAligns[k] = r.Intn(4)
	}
	st.Note = fmt.Sprintf("staged: wrapper reused; earlier renders after %d %v row operations under alignments %v", st.At, st.More, st.PreAligns)
	return st
}

// points lists all intermediate render points of the stage.
func (st *stage) points() []int { return append([]int{st.At}, st.More...) }

// setAlignsExactly puts an alignment assignment in force, clearing every column that is unset in it.
func setAlignsExactly(t tabular.Table, a []int) {
	for n := 0; n <= t.NColumns(); n++ {
		var v interface{}
		if n < len(a) && a[n] != 0 {
			v = alignVals[a[n]]
		}
		t.Column(n).SetProperty(align.PropertyType, v)
	}
}

// ---- destinations: RenderTo takes any io.Writer, and what it writes must not depend on the writer's dynamic type

// destDir is where file-backed destinations are created; destSeq rotates the destination kind and is reset
// from the case index at the start of a case, so that a case always sees the same kinds.
var (
	destDir string
	destSeq int
)

type onlyWriter struct{ b *bytes.Buffer }

func (w onlyWriter) Write(p []byte) (int, error) { return w.b.Write(p) }

// richWriter offers every optional method a renderer might look for.
type richWriter struct{ b bytes.Buffer }

func (w *richWriter) Write(p []byte) (int, error)         { return w.b.Write(p) }
func (w *richWriter) WriteString(s string) (int, error)   { return w.b.WriteString(s) }
func (w *richWriter) WriteByte(c byte) error              { return w.b.WriteByte(c) }
func (w *richWriter) WriteRune(r rune) (int, error)       { return w.b.WriteRune(r) }
func (w *richWriter) ReadFrom(r io.Reader) (int64, error) { return w.b.ReadFrom(r) }

var destKindNames = []string{"*bytes.Buffer", "*strings.Builder", "a type with only a Write method", "a type with Write, WriteString, WriteByte, WriteRune and ReadFrom", "*bufio.Writer of 16 bytes, flushed afterwards", "*io.PipeWriter", "*os.File (pipe)", "*os.File (regular file)",
	"*bytes.Buffer that already holds an earlier document", "*strings.Builder that already holds text", "*os.File opened for appending to existing content"}

// destPrefix is what a destination may already hold when RenderTo is handed it: RenderTo appends its document.
const destPrefix = "an earlier document\n[\n{\"k\": 1}\n]\n"

// renderInto runs f with a healthy destination of the given kind and returns what arrived there.
func renderInto(kind int, f func(w io.Writer) error) (string, error) {
	switch kind % len(destKindNames) {
	default:
		var b bytes.Buffer
		err := f(&b)
		return b.String(), err
	case 1:
		var b strings.Builder
		err := f(&b)
		return b.String(), err
	case 2:
		var b bytes.Buffer
		err := f(onlyWriter{&b})
		return b.String(), err
	case 3:
		var w richWriter
		err := f(&w)
		return w.b.String(), err
	case 4:
		var b bytes.Buffer
		bw := bufio.NewWriterSize(&b, 16)
		err := f(bw)
		if ferr := bw.Flush(); err == nil {
			err = ferr
		}
		return b.String(), err
	case 5:
		pr, pw := io.Pipe()
		done := make(chan []byte, 1)
		go func() { b, _ := io.ReadAll(pr); done <- b }()
		err := f(pw)
		pw.Close()
		return string(<-done), err
	case 6:
		pr, pw, perr := os.Pipe()
		if perr != nil {
			return renderInto(0, f)
		}
		done := make(chan []byte, 1)
		go func() { b, _ := io.ReadAll(pr); pr.Close(); done <- b }()
		err := f(pw)
		pw.Close()
		return string(<-done), err
	case 8:
		b := bytes.NewBufferString(destPrefix)
		err := f(b)
		return strings.TrimPrefix(b.String(), destPrefix), err
	case 9:
		var b strings.Builder
		b.WriteString(destPrefix)
		err := f(&b)
		return strings.TrimPrefix(b.String(), destPrefix), err
	case 10:
		fl, ferr := os.CreateTemp(destDir, "dest-*.out")
		if ferr != nil {
			return renderInto(0, f)
		}
		fl.WriteString(destPrefix)
		fl.Close()
		fa, ferr := os.OpenFile(fl.Name(), os.O_WRONLY|os.O_APPEND, 0)
		if ferr != nil {
			os.Remove(fl.Name())
			return renderInto(0, f)
		}
		err := f(fa)
		fa.Close()
		b, _ := os.ReadFile(fl.Name())
		os.Remove(fl.Name())
		return strings.TrimPrefix(string(b), destPrefix), err
	case 7:
		fl, ferr := os.CreateTemp(destDir, "dest-*.out")
		if ferr != nil {
			return renderInto(0, f)
		}
		err := f(fl)
		fl.Close()
		b, _ := os.ReadFile(fl.Name())
		os.Remove(fl.Name())
		return string(b), err
	}
}

// refusedEverywhere hands a render that must be refused a destination of every healthy kind, and the value
// io.Discard itself: a refusal does not depend on where the output would have gone.  It returns a description of
// the first destination for which the render was not refused (or wrote something), or "".
func refusedEverywhere(f func(w io.Writer) error) string {
	if err := f(io.Discard); err == nil {
		return "RenderTo(io.Discard) returned nil"
	}
	for k := range destKindNames {
		out, err := renderInto(k, f)
		if err == nil || out != "" {
			return fmt.Sprintf("RenderTo into %s wrote %q and returned error %v", destKindNames[k], out, err)
		}
	}
	return ""
}

// ---- programs that link only part of the library (cmd/minprog): what a style or a package-level function does
// must not depend on what else the program imports

// MinJob mirrors cmd/minprog's input.
type MinJob struct {
	Header []string   `json:"header"`
	Rows   [][]string `json:"rows"`
	Routes []string   `json:"routes"`
}

// MinResult mirrors cmd/minprog's per-route output.
type MinResult struct {
	Route string `json:"route"`
	Out   string `json:"out"`
	Err   string `json:"err,omitempty"`
	Panic string `json:"panic,omitempty"`
}

// MinOut is what one run of a minimal program reports.
type MinOut struct {
	Listing []string      `json:"listing,omitempty"`
	Results [][]MinResult `json:"results"`
}

// runMinprog runs the minimal program `which` (auto, csv, html, json, markdown, text) over the jobs; ok=false if the
// program is not available (VERIF_MINPROG unset: the check was started without run.sh).
func runMinprog(which string, jobs []MinJob) (MinOut, bool, error) {
	var out MinOut
	prefix := os.Getenv("VERIF_MINPROG")
	if prefix == "" {
		return out, false, nil
	}
	in, _ := stdjson.Marshal(jobs)
	cmd := exec.Command(prefix + which)
	cmd.Stdin = bytes.NewReader(in)
	var so, se bytes.Buffer
	cmd.Stdout, cmd.Stderr = &so, &se
	var runErr error
	waitingForChild(func() { runErr = cmd.Run() })
	if err := runErr; err != nil {
		return out, true, fmt.Errorf("%s%s: %v; stderr: %s", prefix, which, err, tail(se.String(), 2000))
	}
	if err := stdjson.Unmarshal(so.Bytes(), &out); err != nil {
		return out, true, fmt.Errorf("%s%s: unreadable output: %v", prefix, which, err)
	}
	return out, true, nil
}

func tail(s string, n int) string {
	if len(s) > n {
		return s[len(s)-n:]
	}
	return s
}

// minTables are the tables the minimal programs render.
var minTables = []MinJob{
	{Header: []string{"a", "b"}, Rows: [][]string{{"1", "2"}, nil, {"3"}}},
	{Header: []string{"key", "value", "note"}, Rows: [][]string{{"x", "two\nlines", ""}, {"世界", "<&>|\"", "n"}}},
	{Header: []string{"only"}, Rows: [][]string{{"v"}}},
}

func (j MinJob) build(t tabular.Table) {
	if j.Header != nil {
		hs := make([]interface{}, len(j.Header))
		for i := range hs {
			hs[i] = j.Header[i]
		}
		t.AddHeaders(hs...)
	}
	for _, r := range j.Rows {
		if r == nil {
			t.AddSeparator()
			continue
		}
		items := make([]interface{}, len(r))
		for i := range items {
			items[i] = r[i]
		}
		t.AddRowItems(items...)
	}
}

// ---- items that use the library themselves

// nestedTableItem is a cell item which holds a small table of its own: its text is that table rendered as text, its
// JSON form is that table rendered as JSON.  Rendering the outer table therefore renders the inner one from inside
// the item's String / MarshalJSON - a re-entrant use of the library on one goroutine, with nothing shared but the
// package.
type nestedTableItem struct {
	sub tabular.Table
}

func newNestedTableItem(a, b string) *nestedTableItem {
	t := tabular.New()
	t.AddHeaders("inner key", "inner value")
	t.AddRowItems(a, b)
	return &nestedTableItem{sub: t}
}

func (n *nestedTableItem) String() string {
	s, err := texttable.Wrap(n.sub).SetDecoration(decoration.ASCIIBoxSimple()).Render()
	if err != nil {
		return "nested table: " + err.Error()
	}
	return strings.TrimRight(s, "\n")
}

func (n *nestedTableItem) MarshalJSON() ([]byte, error) {
	s, err := json.Render(n.sub)
	return []byte(s), err
}
