package props

import (
	"fmt"
	"sort"

	"go.pennock.tech/tabular"

	"verifharness/internal/gen"
)

// C13, nested passes: a render-time callback that itself renders the table it sits on (an auditor that logs the
// table as CSV, a hook that measures the rendered size), once, guarding itself against re-entry.  The render it
// starts is a render pass like any other: every render-time callback fires once per matching target in it.  Oracle:
// a twin table with the same registrations whose auditor does nothing gives the per-(callback, target) counts of
// ONE pass; with the nested render the counts are exactly twice those.

type c13NestedReg struct {
	owner, when, target int // owner: 0 table, 1 column 0, 2 column 1, 3 row 1, 4 cell (1,1); when: 1..3 (render times)
}

func c13NestedRun(c *Ctx, regs []c13NestedReg, aud c13NestedReg, outer, inner int, nested bool) (map[string]int, bool) {
	t := tabular.New()
	t.AddHeaders("h1", "h2")
	t.AddRowItems("a", 1)
	t.AddSeparator()
	t.AddRowItems("b")
	t.AddRowItems()
	counts := map[string]int{}
	var refused []string
	ident := func(o tabular.PropertyOwner) string {
		switch x := o.(type) {
		case *tabular.ATable:
			return "T"
		case *tabular.Row:
			return fmt.Sprintf("R%d", x.Location().Row)
		case *tabular.Cell:
			l := x.Location()
			return fmt.Sprintf("X%d.%d", l.Row, l.Column)
		}
		for k := 0; k <= t.NColumns(); k++ {
			if tabular.PropertyOwner(t.Column(k)) == o {
				return fmt.Sprintf("C%d", k)
			}
		}
		return fmt.Sprintf("?%T", o)
	}
	ownerOf := func(k int) tabular.PropertyOwner {
		switch k {
		case 1:
			return t.Column(0)
		case 2:
			return t.Column(1)
		case 3:
			return t.AllRows()[0]
		case 4:
			p, _ := t.CellAt(tabular.CellLocation{Row: 1, Column: 1})
			return p
		}
		return t
	}
	for n, g := range regs {
		n := n
		err := t.RegisterPropertyCallback(ownerOf(g.owner), cbTimes[g.when], cbTargets[g.target], cbFunc(func(o tabular.PropertyOwner) error {
			counts[fmt.Sprintf("#%d->%s", n, ident(o))]++
			return nil
		}))
		if err != nil {
			refused = append(refused, fmt.Sprint(n))
		}
	}
	busy, fired := false, false
	t.RegisterPropertyCallback(ownerOf(aud.owner), cbTimes[aud.when], cbTargets[aud.target], cbFunc(func(o tabular.PropertyOwner) error {
		if !nested || busy || fired {
			return nil
		}
		busy, fired = true, true
		c13Triggers[inner].f(t) // the same table, rendered from inside its own pass
		busy = false
		return nil
	}))
	Guard(func() { c13Triggers[outer].f(t) })
	_ = refused
	return counts, fired
}

func c13Nested(c *Ctx, i int, r *gen.R) {
	var regs []c13NestedReg
	for n := r.Range(3, 8); n > 0; n-- {
		g := c13NestedReg{owner: r.Intn(5), when: r.Range(1, 3), target: r.Intn(3)}
		regs = append(regs, g)
	}
	auds := []c13NestedReg{{0, 1, 0}, {0, 1, 1}, {0, 2, 1}, {0, 3, 0}, {1, 1, 1}, {1, 3, 0}, {3, 1, 0}, {3, 3, 1}, {4, 2, 0}, {2, 2, 1}}
	aud := auds[i%len(auds)]
	outer, inner := (i/len(auds))%len(c13Triggers), (i/7)%len(c13Triggers)
	desc := map[string]interface{}{
		"registrations(owner 0 table,1 column 0,2 column 1,3 row 1,4 cell 1.1; time; target)": fmt.Sprint(regs),
		"auditor_registered_as": fmt.Sprint(aud), "outer_pass_via": c13Triggers[outer].name, "nested_pass_via": c13Triggers[inner].name,
	}
	c.Case = desc
	c.Rec.Eval(gen.Hash64("nested", fmt.Sprint(regs, aud, outer, inner)), true)
	plain, _ := c13NestedRun(c, regs, aud, outer, inner, false)
	twice, started := c13NestedRun(c, regs, aud, outer, inner, true)
	factor := 2
	if !started {
		// the auditor's own registration matches no target of this table (whether it should is the other phases'
		// business): no second pass was started
		factor = 1
		c.Rec.Count("auditors_that_never_fired(no_nested_pass)", 1)
	}
	keys := map[string]bool{}
	for k := range plain {
		keys[k] = true
	}
	for k := range twice {
		keys[k] = true
	}
	var ks []string
	for k := range keys {
		ks = append(ks, k)
	}
	sort.Strings(ks)
	if started {
		c.Rec.Count("nested_render_passes_started_from_inside_a_callback", 1)
	}
	for _, k := range ks {
		c.Rec.Count("callback_target_pairs_compared_across_a_nested_pass", 1)
		if twice[k] != factor*plain[k] {
			c.Rec.Violate("nested-pass:invocation-count", fmt.Sprintf("callback/target %s is invoked %d time(s) by one render pass; when a callback starts a second pass of the same table from inside the first (%s inside %s), the two passes together invoke it %d time(s), expected %d", k, plain[k], c13Triggers[inner].name, c13Triggers[outer].name, twice[k], factor*plain[k]), desc)
			return
		}
	}
}

// C13, a by-value copy of a cell that already sits in a row: the copy is a cell of its own.  A callback registered on
// the copy (before the copy is added to another row) belongs to the copy: it fires once per pass on the live cell
// the copy became, and never on the cell it was copied from.
func c13CopyOfPlaced(c *Ctx, i int, r *gen.R) {
	when := i % len(cbTimes)
	viaCells := (i/4)%2 == 1
	attachFirst := (i/8)%2 == 1
	desc := map[string]interface{}{"time": cbTimeNames[when], "copy_taken_through": map[bool]string{false: "*CellAt(1,2)", true: "AllRows()[0].Cells()[1]"}[viaCells], "second_row_attached_before_the_copy_is_added": attachFirst}
	c.Case = desc
	c.Rec.Eval(gen.Hash64("copy-of-placed", fmt.Sprint(i)), true)
	t := tabular.New()
	t.AddHeaders("h1", "h2")
	t.AddRowItems("a", "source")
	var dup tabular.Cell
	if viaCells {
		dup = t.AllRows()[0].Cells()[1]
	} else {
		p, err := t.CellAt(tabular.CellLocation{Row: 1, Column: 2})
		if err != nil {
			c.Rec.Violate("cell-unreachable", fmt.Sprint(err), desc)
			return
		}
		dup = *p
	}
	var fired []string
	err := t.RegisterPropertyCallback(&dup, cbTimes[when], tabular.CB_ON_ITSELF, cbFunc(func(o tabular.PropertyOwner) error {
		if cell, ok := o.(*tabular.Cell); ok {
			fired = append(fired, fmt.Sprintf("%+v", cell.Location()))
		} else {
			fired = append(fired, fmt.Sprintf("%T", o))
		}
		return nil
	}))
	if err != nil {
		c.Rec.Violate("registration-refused:copy-of-a-placed-cell", fmt.Sprintf("registering on a by-value copy of a placed cell was refused: %v", err), desc)
		return
	}
	row2 := tabular.NewRow()
	row2.Add(tabular.NewCell("b"))
	if attachFirst {
		t.AddRow(row2)
		row2.Add(dup)
	} else {
		row2.Add(dup)
		t.AddRow(row2)
	}
	atAdd := append([]string{}, fired...)
	fired = nil
	t.InvokeRenderCallbacks()
	c.Rec.Count("callbacks_registered_on_by-value_copies_of_placed_cells", 1)
	want := []string{"{Row:2 Column:2}"}
	for _, f := range append(append([]string{}, atAdd...), fired...) {
		if f == "{Row:1 Column:2}" {
			c.Rec.Violate("copy-of-a-placed-cell:fires-on-the-original", fmt.Sprintf("a %s callback registered on a by-value copy of the cell at (1,2) fired on the ORIGINAL cell (while the copy was added: %v; during the render pass: %v)", cbTimeNames[when], atAdd, fired), desc)
			return
		}
	}
	if cbTimeNames[when] != "AT_RENDER" {
		return // a cell's own callbacks have a place in the documented order at render time only; the other times are not asserted
	}
	if fmt.Sprint(fired) != fmt.Sprint(want) {
		c.Rec.Violate("copy-of-a-placed-cell:fires-elsewhere", fmt.Sprintf("a %s callback registered on a by-value copy of the cell at (1,2), the copy then added to row 2, fired on %v during one render pass; expected exactly once, on the live cell %v", cbTimeNames[when], fired, want), desc)
	}
}
