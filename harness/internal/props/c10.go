package props

import (
	"fmt"
	"go.pennock.tech/tabular/length"
	"io"
	"strings"
	"sync"

	"go.pennock.tech/tabular"
	"go.pennock.tech/tabular/auto"
	"go.pennock.tech/tabular/csv"
	"go.pennock.tech/tabular/html"
	"go.pennock.tech/tabular/json"
	"go.pennock.tech/tabular/markdown"
	"go.pennock.tech/tabular/texttable"
	"go.pennock.tech/tabular/texttable/decoration"

	"verifharness/internal/gen"
)

// C10 - a table renders the same whatever wrapper created it or is wrapped around it.
//
// Monitor: byte-equality (and equality of error status) of every route to the
// same content and target format with the reference route: core New + direct Wrap + Render.

type c10Path struct {
	name string
	mk   func() tabular.Table
}

func c10Paths() []c10Path {
	ps := []c10Path{
		{"tabular.New", func() tabular.Table { return tabular.New() }},
		{"csv.New", func() tabular.Table { return csv.New() }},
		{"html.New", func() tabular.Table { return html.New() }},
		{"json.New", func() tabular.Table { return json.New() }},
		{"markdown.New", func() tabular.Table { return markdown.New() }},
		{"texttable.New", func() tabular.Table { return texttable.New() }},
	}
	for _, st := range auto.ListStyles() {
		st := st
		ps = append(ps, c10Path{"auto.New(" + st + ")", func() tabular.Table { return auto.New(st) }})
	}
	// a style nobody knows still creates a table (which refuses to render until it is given a decoration)
	for _, st := range []string{"c10-no-such-style", "", "texttable.c10-nope"} {
		st := st
		ps = append(ps, c10Path{"auto.New(" + st + ")", func() tabular.Table { return auto.New(st) }})
	}
	return ps
}

// c10Target is a target format with all the routes that should produce it.
type c10Target struct {
	format string
	routes []c10Route
}

type c10Route struct {
	name string
	f    func(t tabular.Table) (string, error)
}

// c10StatusOnly prefixes the name of a route whose destination shows nothing (io.Discard itself): only whether the
// render is refused is compared.
const c10StatusOnly = "[into io.Discard, status compared] "

// intoDiscard renders into the value io.Discard: whether a render succeeds or is refused is not the destination's business.
func intoDiscard(f func(w io.Writer) error) (string, error) { return "", f(io.Discard) }

// c10Mutating prefixes the name of a route which itself reconfigures the object it is handed (such a route is not
// used on top of wrapper chains whose members are rendered again afterwards).
const c10Mutating = "[reconfigures its argument] "

func viaTo(f func(w io.Writer) error) (string, error) {
	// the destination's dynamic type rotates: nothing a renderer writes may depend on it
	destSeq++
	out, err := renderInto(destSeq, f)
	if err != nil {
		return "", err
	}
	return out, nil
}

func c10Targets() []c10Target {
	ts := []c10Target{
		{"csv", []c10Route{
			{"csv.Wrap(t).Render", func(t tabular.Table) (string, error) { return csv.Wrap(t).Render() }},
			{"csv.Render(t)", func(t tabular.Table) (string, error) { return csv.Render(t) }},
			{"csv.RenderTo(t,w)", func(t tabular.Table) (string, error) {
				return viaTo(func(w io.Writer) error { return csv.RenderTo(t, w) })
			}},
			{"csv.Wrap(t).RenderTo(w)", func(t tabular.Table) (string, error) { return viaTo(csv.Wrap(t).RenderTo) }},
			{"auto.Render(t,csv)", func(t tabular.Table) (string, error) { return auto.Render(t, "csv") }},
			{"auto.RenderTo(t,w,CSV)", func(t tabular.Table) (string, error) {
				return viaTo(func(w io.Writer) error { return auto.RenderTo(t, w, "CSV") })
			}},
			{"auto.Wrap(t,csv.x.y).Render", func(t tabular.Table) (string, error) { return auto.Wrap(t, "csv.x.y").Render() }},
			{"cp := *csv.Wrap(t); cp.Render() (a by-value copy of the wrapper does the rendering)", func(t tabular.Table) (string, error) { cp := *csv.Wrap(t); return cp.Render() }},
			{c10StatusOnly + "csv.Wrap(t).RenderTo(io.Discard)", func(t tabular.Table) (string, error) { return intoDiscard(csv.Wrap(t).RenderTo) }},
		}},
		{"html", []c10Route{
			{"html.Wrap(t).Render", func(t tabular.Table) (string, error) { return html.Wrap(t).Render() }},
			{"html.Wrap(t).RenderTo(w)", func(t tabular.Table) (string, error) { return viaTo(html.Wrap(t).RenderTo) }},
			{"auto.Render(t,html)", func(t tabular.Table) (string, error) { return auto.Render(t, "html") }},
			{"auto.RenderTo(t,w,Html)", func(t tabular.Table) (string, error) {
				return viaTo(func(w io.Writer) error { return auto.RenderTo(t, w, "Html") })
			}},
			{"auto.Wrap(t,html).RenderTo(w)", func(t tabular.Table) (string, error) { return viaTo(auto.Wrap(t, "html").RenderTo) }},
			{"cp := *html.Wrap(t); cp.Render()", func(t tabular.Table) (string, error) { cp := *html.Wrap(t); return cp.Render() }},
			{"(&html.HTMLTable{Table: t}).Render (composite literal)", func(t tabular.Table) (string, error) { return (&html.HTMLTable{Table: t}).Render() }},
			{c10StatusOnly + "html.Wrap(t).RenderTo(io.Discard)", func(t tabular.Table) (string, error) { return intoDiscard(html.Wrap(t).RenderTo) }},
		}},
		{"json", []c10Route{
			{"json.Wrap(t).Render", func(t tabular.Table) (string, error) { return json.Wrap(t).Render() }},
			{"json.Render(t)", func(t tabular.Table) (string, error) { return json.Render(t) }},
			{"json.RenderTo(t,w)", func(t tabular.Table) (string, error) {
				return viaTo(func(w io.Writer) error { return json.RenderTo(t, w) })
			}},
			{"json.Wrap(t).RenderTo(w)", func(t tabular.Table) (string, error) { return viaTo(json.Wrap(t).RenderTo) }},
			{"auto.Render(t,json)", func(t tabular.Table) (string, error) { return auto.Render(t, "json") }},
			{"auto.Wrap(t,JSON).RenderTo(w)", func(t tabular.Table) (string, error) { return viaTo(auto.Wrap(t, "JSON").RenderTo) }},
			{"cp := *json.Wrap(t); cp.RenderTo(w)", func(t tabular.Table) (string, error) { cp := *json.Wrap(t); return viaTo(cp.RenderTo) }},
			{"(&json.JSONTable{Table: t}).Render (composite literal)", func(t tabular.Table) (string, error) { return (&json.JSONTable{Table: t}).Render() }},
			{c10StatusOnly + "json.RenderTo(t, io.Discard)", func(t tabular.Table) (string, error) {
				return intoDiscard(func(w io.Writer) error { return json.RenderTo(t, w) })
			}},
		}},
		{"markdown", []c10Route{
			{"markdown.Wrap(t).Render", func(t tabular.Table) (string, error) { return markdown.Wrap(t).Render() }},
			{"markdown.Render(t)", func(t tabular.Table) (string, error) { return markdown.Render(t) }},
			{"markdown.RenderTo(t,w)", func(t tabular.Table) (string, error) {
				return viaTo(func(w io.Writer) error { return markdown.RenderTo(t, w) })
			}},
			{"markdown.Wrap(t).RenderTo(w)", func(t tabular.Table) (string, error) { return viaTo(markdown.Wrap(t).RenderTo) }},
			{"auto.Render(t,markdown)", func(t tabular.Table) (string, error) { return auto.Render(t, "markdown") }},
			{"auto.Wrap(t,Markdown.gfm).Render", func(t tabular.Table) (string, error) { return auto.Wrap(t, "Markdown.gfm").Render() }},
			{"cp := *markdown.Wrap(t); cp.Render()", func(t tabular.Table) (string, error) { cp := *markdown.Wrap(t); return cp.Render() }},
			{c10StatusOnly + "auto.RenderTo(t, io.Discard, markdown)", func(t tabular.Table) (string, error) {
				return intoDiscard(func(w io.Writer) error { return auto.RenderTo(t, w, "markdown") })
			}},
		}},
	}
	def := c10Target{"text:(default decoration)", []c10Route{
		{"texttable.Wrap(t).Render", func(t tabular.Table) (string, error) { return texttable.Wrap(t).Render() }},
		{"texttable.Render(t)", func(t tabular.Table) (string, error) { return texttable.Render(t) }},
		{"texttable.RenderTo(t,w)", func(t tabular.Table) (string, error) {
			return viaTo(func(w io.Writer) error { return texttable.RenderTo(t, w) })
		}},
		{"texttable.Wrap(t).RenderTo(w)", func(t tabular.Table) (string, error) { return viaTo(texttable.Wrap(t).RenderTo) }},
		{"auto.Render(t,texttable)", func(t tabular.Table) (string, error) { return auto.Render(t, "texttable") }},
		{"auto.Wrap(t,TextTable).RenderTo(w)", func(t tabular.Table) (string, error) { return viaTo(auto.Wrap(t, "TextTable").RenderTo) }},
		{"cp := *texttable.Wrap(t); cp.Render()", func(t tabular.Table) (string, error) { cp := *texttable.Wrap(t); return cp.Render() }},
		{"struct embedding texttable.TextTable by value, initialised from *texttable.Wrap(t), .RenderTo(w)", func(t tabular.Table) (string, error) {
			app := struct {
				texttable.TextTable
				Note string
			}{*texttable.Wrap(t), "application data"}
			return viaTo(app.RenderTo)
		}},
		{c10StatusOnly + "texttable.Wrap(t).RenderTo(io.Discard)", func(t tabular.Table) (string, error) { return intoDiscard(texttable.Wrap(t).RenderTo) }},
	}}
	ts = append(ts, def)
	c10RegisterOnce.Do(func() {
		// decorations an application might register: the statement's "corresponding style string" for
		// them is their exact name (decoration names are case sensitive; only sub-package names are not)
		for i, name := range []string{"Acme-Mixed-Case", "UTF8-HEAVY", "acme.dotted.name", "Acme.Dotted", "acme space", "acme-plain"} {
			d := decoration.Decoration{Horizontal: string(rune('a' + i)), Vertical: string(rune('A' + i)), CrossPiece: string(rune('0' + i))}
			d.Populate()
			decoration.RegisterDecorationName(name, d)
		}
		// glyphs that are metacharacters of fmt, templates and HTML are glyphs like any other
		meta := decoration.Decoration{Horizontal: "-", Vertical: "$", CrossPiece: "%", TopLeft: "{", TopRight: "}", BottomLeft: "<", BottomRight: "&"}
		meta.Populate()
		decoration.RegisterDecorationName("acme-meta", meta)
	})
	for _, name := range decoration.RegisteredDecorationNames() {
		name := name
		if first := strings.ToLower(strings.SplitN(name, ".", 2)[0]); first == "csv" || first == "html" || first == "json" || first == "markdown" || first == "texttable" {
			continue
		}
		ts = append(ts, c10Target{"text:" + name, []c10Route{
			{"texttable.Wrap(t).SetDecorationNamed.Render", func(t tabular.Table) (string, error) {
				tt, err := texttable.Wrap(t).SetDecorationNamed(name)
				if err != nil {
					return "", err
				}
				return tt.Render()
			}},
			{"texttable.Wrap(t).SetDecoration(Named).RenderTo(w)", func(t tabular.Table) (string, error) {
				return viaTo(texttable.Wrap(t).SetDecoration(decoration.Named(name)).RenderTo)
			}},
			{"auto.Render(t,NAME)", func(t tabular.Table) (string, error) { return auto.Render(t, name) }},
			{"auto.Render(t,texttable.NAME)", func(t tabular.Table) (string, error) { return auto.Render(t, "texttable."+name) }},
			{"auto.RenderTo(t,w,NAME)", func(t tabular.Table) (string, error) {
				return viaTo(func(w io.Writer) error { return auto.RenderTo(t, w, name) })
			}},
			{"auto.Wrap(t,TEXTTABLE.NAME).Render", func(t tabular.Table) (string, error) { return auto.Wrap(t, "TEXTTABLE."+name).Render() }},
			// what auto returns for a text style is a *texttable.TextTable the program may go on configuring
			// (the repository's own inspection example does): one made for an unknown style and then given a
			// decoration is a text table like any other
			{"auto.Wrap(t,unknown) type-asserted, then SetDecorationNamed(NAME).Render", func(t tabular.Table) (string, error) {
				tt, ok := auto.Wrap(t, "c10-no-such-style").(*texttable.TextTable)
				if !ok {
					return "", fmt.Errorf("auto.Wrap for an unknown style did not return a *texttable.TextTable")
				}
				if _, err := tt.SetDecorationNamed(name); err != nil {
					return "", err
				}
				return tt.Render()
			}},
			{c10Mutating + "the table itself if it is a *TextTable (else auto.Wrap(t,'')), then SetDecoration(Named(NAME)).Render", func(t tabular.Table) (string, error) {
				tt, ok := t.(*texttable.TextTable)
				if !ok {
					if tt, ok = auto.Wrap(t, "").(*texttable.TextTable); !ok {
						return "", fmt.Errorf("auto.Wrap for an empty style did not return a *texttable.TextTable")
					}
				}
				return tt.SetDecoration(decoration.Named(name)).Render()
			}},
		}})
	}
	return ts
}

var c10RegisterOnce sync.Once

var c10Wrappers = []struct {
	name string
	f    func(t tabular.Table) tabular.Table
}{
	{"csv.Wrap", func(t tabular.Table) tabular.Table { return csv.Wrap(t) }},
	{"html.Wrap", func(t tabular.Table) tabular.Table { return html.Wrap(t) }},
	{"json.Wrap", func(t tabular.Table) tabular.Table { return json.Wrap(t) }},
	{"markdown.Wrap", func(t tabular.Table) tabular.Table { return markdown.Wrap(t) }},
	{"texttable.Wrap", func(t tabular.Table) tabular.Table { return texttable.Wrap(t) }},
	{"auto.Wrap(utf8-light)", func(t tabular.Table) tabular.Table { return auto.Wrap(t, "utf8-light") }},
	// wrappers carrying a configuration of their own, which whatever is wrapped around them later must leave alone
	{"texttable.Wrap+ascii-simple", func(t tabular.Table) tabular.Table {
		return texttable.Wrap(t).SetDecoration(decoration.ASCIIBoxSimple())
	}},
	{"texttable.Wrap+unknown-name", func(t tabular.Table) tabular.Table {
		tt, _ := texttable.Wrap(t).SetDecorationNamed("c10-no-such-decoration")
		return tt
	}},
	{"html.Wrap+caption+id", func(t tabular.Table) tabular.Table {
		h := html.Wrap(t)
		h.Caption, h.Id = "inner caption", "inner-id"
		return h
	}},
	{"auto.Wrap(no-such-style)", func(t tabular.Table) tabular.Table { return auto.Wrap(t, "c10-no-such-style") }},
	// wrappers held in the Table interface BY VALUE (a slice of csv.CSVTable, a struct field): the wrapper types are
	// plain structs embedding the interface, so their values are tables too
	{"csv.CSVTable by value", func(t tabular.Table) tabular.Table { return *csv.Wrap(t) }},
	{"html.HTMLTable by value", func(t tabular.Table) tabular.Table { return *html.Wrap(t) }},
	{"json.JSONTable by value", func(t tabular.Table) tabular.Table { return *json.Wrap(t) }},
	{"markdown.MarkdownTable by value", func(t tabular.Table) tabular.Table { return *markdown.Wrap(t) }},
	{"texttable.TextTable by value", func(t tabular.Table) tabular.Table { return *texttable.Wrap(t) }},
	// wrappers made by composite literal rather than by Wrap (used here as the table of whatever is wrapped around them)
	{"&html.HTMLTable{Table: t} literal", func(t tabular.Table) tabular.Table { return &html.HTMLTable{Table: t, Caption: "literal"} }},
	// (a markdown or text wrapper made by literal lacks the measuring callback Wrap registers: what it renders itself
	// is outside any statement, so those two are not used as links - C09 renders through them for totality)
	{"&csv.CSVTable{Table: t} literal", func(t tabular.Table) tabular.Table { return &csv.CSVTable{Table: t} }},
	// a wrapper type of the application's own, made the way the library makes its own: a struct embedding the Table
	// interface (every method is the embedded table's) with fields of its own next to it
	{"application-defined struct embedding tabular.Table (by pointer)", func(t tabular.Table) tabular.Table {
		return &c10AppTable{Table: t, Title: "application data"}
	}},
	{"application-defined struct embedding tabular.Table (by value)", func(t tabular.Table) tabular.Table {
		return c10AppTable{Table: t, Title: "application data"}
	}},
}

// c10AppTable is what an application that wants to carry a table around together with data of its own writes.
type c10AppTable struct {
	tabular.Table
	Title string
	Notes []string
}

// c10Renderer is what every wrapper offers.
type c10Renderer interface {
	Render() (string, error)
}

const c10Fam = gen.FAscii | gen.FNewline | gen.FWide | gen.FCombining | gen.FCSV | gen.FHTML | gen.FMD | gen.FEmoji | gen.FEdge

type c10Case struct {
	Table gen.TableSpec `json:"table"`
}

// c10Canary is run right after a render that returned an error: on a small well-formed table, for
// every format, Render must still return exactly what RenderTo writes (a failed render must leave
// nothing behind that a later Render picks up).
func c10Canary(c *Ctx, cs *c10Case, after string) bool {
	mk := func() tabular.Table {
		t := tabular.New()
		t.AddHeaders("k1", "k2")
		t.AddRowItems("v", 2)
		return t
	}
	pairs := []struct {
		name   string
		render func(tabular.Table) (string, error)
		to     func(tabular.Table) (string, error)
	}{
		{"csv", func(t tabular.Table) (string, error) { return csv.Wrap(t).Render() }, func(t tabular.Table) (string, error) { return viaTo(csv.Wrap(t).RenderTo) }},
		{"html", func(t tabular.Table) (string, error) { return html.Wrap(t).Render() }, func(t tabular.Table) (string, error) { return viaTo(html.Wrap(t).RenderTo) }},
		{"json", func(t tabular.Table) (string, error) { return json.Wrap(t).Render() }, func(t tabular.Table) (string, error) { return viaTo(json.Wrap(t).RenderTo) }},
		{"markdown", func(t tabular.Table) (string, error) { return markdown.Wrap(t).Render() }, func(t tabular.Table) (string, error) { return viaTo(markdown.Wrap(t).RenderTo) }},
		{"text", func(t tabular.Table) (string, error) { return texttable.Wrap(t).Render() }, func(t tabular.Table) (string, error) { return viaTo(texttable.Wrap(t).RenderTo) }},
	}
	for _, p := range pairs {
		a, ea := p.render(mk())
		b, eb := p.to(mk())
		c.Rec.Count("render_vs_renderto_probes_after_a_failed_render", 1)
		if (ea != nil) != (eb != nil) || a != b {
			c.Rec.Violate("render-differs-from-renderto-after-a-failed-render:"+p.name, fmt.Sprintf("right after a %s render returned an error, %s Render() of a small well-formed table gives %q (err %v) but RenderTo writes %q (err %v)", after, p.name, a, ea, b, eb), cs)
			return false
		}
	}
	return true
}

func c10Run(c *Ctx, i int, r *gen.R) {
	spec := r.Table(gen.TableOpts{MaxCols: 4, MaxRows: 5, ZeroHeaderOK: true, MinCols: 0, Noise: gen.NoiseSkipable | gen.NoiseAlign | gen.NoiseCallbacks | gen.NoiseFailingCallbacks,
		Item: func(r *gen.R) gen.ItemSpec {
			switch r.Intn(12) {
			case 0:
				return r.AnyItem(c10Fam, 4, 1)
			case 1:
				return c04Item(r)
			case 2:
				if r.Chance(1, 3) {
					return gen.ItemSpec{K: gen.Pick(r, []string{"nan", "inf", "complex"}), Flt: 1, Num: 2} // a render that fails part-way (JSON)
				}
			}
			return r.TextItemSized(c10Fam, 5, length.StringCells)
		}})
	if r.Chance(1, 3) && spec.NCols() > 0 {
		// headers every renderer accepts, so that JSON gets as far as the rows
		spec.HasHeader = true
		spec.Header = nil
		for k := 0; k < spec.NCols(); k++ {
			spec.Header = append(spec.Header, gen.StrItem(fmt.Sprintf("key%d", k+1)))
		}
		if spec.HeaderAt > len(spec.Rows) {
			spec.HeaderAt = len(spec.Rows)
		}
	}
	cs := &c10Case{Table: spec}
	c.Case = cs
	destDir, destSeq = c.OutDir, i
	paths := c10Paths()
	targets := c10Targets()
	c.Rec.Eval(gen.Hash64(spec.Shape(), fmt.Sprint(spec.HeaderTexts()), fmt.Sprint(textsOf(&spec))), spec.NCols() > 0 && spec.NBody() > 0)
	if c.Rec.WantSample() && i%20 == 3 {
		c.Rec.Sample(map[string]interface{}{"table": spec, "creation_paths": len(paths), "targets": len(targets)})
	}
	fresh := func(p c10Path) tabular.Table { return spec.Build(p.mk()).T }
	for _, tg := range targets {
		refOut, refErr := tg.routes[0].f(fresh(paths[0]))
		compare := func(how string, out string, err error, statusOnly bool) bool {
			c.Rec.Count("outputs_compared", 1)
			if (err != nil) != (refErr != nil) {
				c.Rec.Violate("status-differs:"+tg.format, fmt.Sprintf("format %s: %s gives error=%v, the reference (tabular.New + %s) gives error=%v", tg.format, how, err, tg.routes[0].name, refErr), cs)
				return false
			}
			if statusOnly {
				c.Rec.Count("renders_into_io.Discard_whose_status_was_compared", 1)
				return true
			}
			if out != refOut {
				c.Rec.Violate("bytes-differ:"+tg.format, fmt.Sprintf("format %s: %s produces %q, the reference (tabular.New + %s) produces %q", tg.format, how, out, tg.routes[0].name, refOut), cs)
				return false
			}
			return true
		}
		if refErr != nil && !c10Canary(c, cs, tg.format) {
			return
		}
		for pi, p := range paths {
			for ri, rt := range tg.routes {
				if pi == 0 && ri == 0 {
					continue
				}
				out, err := rt.f(fresh(p))
				if !compare(fmt.Sprintf("%s on a table created by %s", rt.name, p.name), out, err, strings.HasPrefix(rt.name, c10StatusOnly)) {
					return
				}
				if err != nil && pi < 2 && !c10Canary(c, cs, tg.format) {
					return
				}
			}
		}
		// wrapper nestings of depth 1-3 of mixed kinds around the table, target wrapper outermost
		for k := 0; k < 6; k++ {
			p := paths[r.Intn(len(paths))]
			t := fresh(p)
			depth := r.Range(1, 3)
			if k == 5 {
				depth = gen.Pick(r, []int{8, 9, 10, 12, 17, 33}) // a tall tower: nothing in the statement bounds the depth
			}
			chain := p.name
			type link struct {
				name   string
				w      c10Renderer
				out    string
				failed bool
			}
			var links []link
			for d := 0; d < depth; d++ {
				w := c10Wrappers[r.Intn(len(c10Wrappers))]
				t = w.f(t)
				chain = w.name + "(" + chain + ")"
				if rd, ok := t.(c10Renderer); ok {
					o, e := rd.Render()
					links = append(links, link{chain, rd, o, e != nil})
				}
			}
			rt := tg.routes[r.Intn(len(tg.routes))]
			for strings.HasPrefix(rt.name, c10Mutating) {
				rt = tg.routes[r.Intn(len(tg.routes))]
			}
			out, err := rt.f(t)
			c.Rec.Count("nested_wrapper_chains", 1)
			if !compare(fmt.Sprintf("%s on %s", rt.name, chain), out, err, strings.HasPrefix(rt.name, c10StatusOnly)) {
				return
			}
			// every wrapper of the chain still is what it was before something was wrapped around it and rendered
			for _, l := range links {
				o, e := l.w.Render()
				c.Rec.Count("inner_wrappers_rendered_again_after_being_wrapped", 1)
				if o != l.out || (e != nil) != l.failed {
					c.Rec.Violate("inner-wrapper-changed-by-outer:"+tg.format, fmt.Sprintf("the wrapper %s rendered %q (error=%v) before it was wrapped; after %s was applied on top of the chain %s it renders %q (error=%v)", l.name, l.out, l.failed, rt.name, chain, o, e != nil), cs)
					return
				}
			}
		}
	}
}

func init() {
	register(&Prop{
		ID:    "C10",
		Level: "exploration",
		Rule: "one random table (0-4 columns x 0-5 rows, ragged/zero-cell rows, separators, header anywhere, every row-building route, hostile texts, occasionally size-declaring or non-string items) per case; its construction history is replayed on a table from every creation path (tabular.New, csv/html/json/markdown/texttable.New, auto.New(style) for every listed style) and rendered to every target format (csv, html, json, markdown, text under the default and every registered decoration, including seven application-registered ones with mixed-case, upper-cased-built-in, dotted and spaced names, one of them made of fmt/template/HTML metacharacters) through every route (package Render/RenderTo, Wrap().Render/RenderTo, auto.Render/RenderTo/Wrap with case variants, trailing sections and texttable. prefixes) plus 6 random wrapper nestings per format (five of depth 1-3, one of depth 8-33); each render uses a freshly built table. " +
			"Every output and error status must equal the reference route (tabular.New + direct Wrap + Render); right after any render that returned an error, Render and RenderTo of a small well-formed table are compared in all five formats. Distinct = distinct (shape, texts); non-trivial = at least one column and one body row.",
		Assumptions: []string{
			"equality only: which bytes are right is the business of C03-C08",
			"error messages are not compared, only whether there is an error",
			"every render starts from a freshly built table, so repeatability (C14) is not presupposed",
		},
		Phases: []Phase{
			{Name: "random tables x creation paths x targets x routes", N: Fixed(150, 20000), Run: c10Run},
			{Name: "6 programs linking only one import set each (auto, csv, html, json, markdown, texttable) x 3 tables: same bytes as the fully linked harness", Exhaustive: true, N: Fixed(18, 18), Run: c10Min},
		},
	})
}
