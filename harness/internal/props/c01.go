package props

import (
	"fmt"
	"reflect"
	"strings"

	"go.pennock.tech/tabular"
	"go.pennock.tech/tabular/csv"

	"verifharness/internal/gen"
	"verifharness/internal/model"
)

// C01 - a cell's text is the documented text form of the item stored in it.
//
// Oracle: gen.ItemSpec.Text, written from the statement; which interfaces a
// generated type implements is known from its construction.

const c01Fam = gen.FAscii | gen.FNewline | gen.FCR | gen.FWide | gen.FCombining | gen.FZero | gen.FEmoji | gen.FCSV | gen.FHTML | gen.FMD | gen.FInvalid | gen.FSGR | gen.FNUL | gen.FEdge

func sameItem(a, b interface{}) bool {
	if a == nil || b == nil {
		return a == nil && b == nil
	}
	ta, tb := reflect.TypeOf(a), reflect.TypeOf(b)
	if ta != tb {
		return false
	}
	if ta.Comparable() {
		eq := false
		func() {
			defer func() { recover() }()
			eq = a == b
		}()
		if eq {
			return true
		}
	}
	if reflect.DeepEqual(a, b) {
		return true
	}
	// NaN is not equal to itself, neither for == nor for DeepEqual: fall back to the printed form for values holding one
	if pa := fmt.Sprintf("%#v", a); strings.Contains(pa, "NaN") && pa == fmt.Sprintf("%#v", b) {
		return true
	}
	return false
}

func c01Observe(c *Ctx, cell *tabular.Cell, item interface{}, want string, spec *gen.ItemSpec, when string) bool {
	c.Rec.Count("observations", 1)
	cls := spec.K
	if spec.K == "typed" {
		cls = "typed-item"
	}
	if got := cell.String(); got != want {
		c.Rec.Violate("text-form:"+cls+":"+when, fmt.Sprintf("%s: cell of %s reports text %q, the documented text form is %q", when, spec.Describe(), got, want), spec)
		return false
	}
	if got := cell.Empty(); got != (want == "") {
		c.Rec.Violate("empty-flag:"+cls+":"+when, fmt.Sprintf("%s: cell of %s with text %q reports Empty()=%v", when, spec.Describe(), want, got), spec)
		return false
	}
	if got := cell.Item(); !sameItem(got, item) {
		c.Rec.Violate("item-identity:"+cls, fmt.Sprintf("%s: Item() returns %#v (%T), stored %#v (%T)", when, got, got, item, item), spec)
		return false
	}
	return true
}

// c01Behind: a cell which is behind its item (the item was mutated and the cell not asked to update) used as the
// item of other cells.  "A nested cell gives the inner cell's text": what the inner cell says now, which is not
// what its item would say.  By value, by pointer, through NewCell and through AddRowItems, and again after the
// outer cell is asked to update (its item, the inner cell, has not changed).
func c01Behind(c *Ctx, inner *tabular.Cell, want string, spec *gen.ItemSpec, when string) bool {
	c.Rec.Count("cells_behind_their_item_used_as_items", 1)
	byValue := tabular.NewCell(*inner)
	byPtr := tabular.NewCell(inner)
	tt := tabular.New()
	tt.AddRowItems(*inner, inner)
	in1, e1 := tt.CellAt(tabular.CellLocation{Row: 1, Column: 1})
	in2, e2 := tt.CellAt(tabular.CellLocation{Row: 1, Column: 2})
	if e1 != nil || e2 != nil {
		c.Rec.Violate("cell-unreachable", fmt.Sprintf("CellAt after AddRowItems(cell, &cell): %v %v", e1, e2), spec)
		return false
	}
	outers := []*tabular.Cell{&byValue, &byPtr, in1, in2}
	names := []string{"NewCell(inner)", "NewCell(&inner)", "the cell AddRowItems made of inner", "the cell AddRowItems made of &inner"}
	for pass := 0; pass < 2; pass++ {
		for k, o := range outers {
			c.Rec.Count("observations", 1)
			if got := o.String(); got != want || inner.String() != want {
				c.Rec.Violate("text-form:nested-cell-behind-its-item", fmt.Sprintf("%s: the inner cell (of %s, not asked to update) reads %q; %s (pass %d: 0 as made, 1 after its own Update) reads %q", when, spec.Describe(), inner.String(), names[k], pass, got), spec)
				return false
			}
			if got := o.Empty(); got != inner.Empty() {
				c.Rec.Violate("empty-flag:nested-cell-behind-its-item", fmt.Sprintf("%s: inner cell Empty()=%v, %s Empty()=%v", when, inner.Empty(), names[k], got), spec)
				return false
			}
			o.Update()
		}
	}
	return true
}

func c01Check(c *Ctx, spec *gen.ItemSpec, r *gen.R) {
	c.Case = spec
	made := spec.Make()
	want := spec.Text()
	sig := gen.Hash64(spec.K, spec.Code, fmt.Sprint(spec.Ptr), want)
	c.Rec.Eval(sig, spec.K != "str")
	detail := "detail:kind:" + spec.K
	if spec.K == "typed" {
		detail = "detail:type:" + spec.Code
		if spec.Ptr {
			detail += ":by-pointer"
		}
	}
	c.Rec.Count(detail, 1)
	if c.Rec.WantSample() && spec.K == "typed" {
		c.Rec.Sample(map[string]interface{}{"item": spec, "expected_text": gen.Q(want)})
	}
	cell := tabular.NewCell(made.Item)
	if !c01Observe(c, &cell, made.Item, want, spec, "after NewCell") {
		return
	}
	// the same cell once it lives in a table, and as shown by a renderer
	t := tabular.New()
	t.AddHeaders("h")
	t.AddRowItems(made.Item)
	// and as a header cell: a header row is made of cells like any other
	th := tabular.New()
	th.AddHeaders(made.Item, "second header")
	var hdr *tabular.Cell
	if hs := th.Headers(); len(hs) == 2 {
		hdr = &hs[0]
		if !c01Observe(c, hdr, made.Item, want, spec, "as a header cell") {
			return
		}
	}
	live, err := t.CellAt(tabular.CellLocation{Row: 1, Column: 1})
	if err != nil {
		c.Rec.Violate("cell-unreachable", fmt.Sprintf("CellAt(1,1) after AddRowItems: %v", err), spec)
		return
	}
	if !c01Observe(c, live, made.Item, want, spec, "inside a table") {
		return
	}
	if out, rerr := csv.Wrap(t).Render(); rerr == nil {
		if recs, perr := model.ParseCSVStrict([]byte(out)); perr == nil && len(recs) == 2 && len(recs[1]) == 1 {
			c.Rec.Count("renderer_readbacks", 1)
			if recs[1][0] != want {
				c.Rec.Violate("text-form:renderer-shows-other-text", fmt.Sprintf("CSV shows %q for the cell of %s, documented text form %q", recs[1][0], spec.Describe(), want), spec)
				return
			}
		}
	}
	// mutation: text must not change until Update, and must change with it
	if made.Mutate != nil {
		for round := 0; round < 3; round++ {
			nf := r.FieldsAny(c01Fam, 4)
			made.Mutate(nf)
			c.Rec.Count("mutations", 1)
			if !c01Observe(c, &cell, made.Item, want, spec, "after mutating the item, before Update") {
				return
			}
			if !c01Observe(c, live, made.Item, want, spec, "after mutating the item, before Update") {
				return
			}
			if hdr != nil && !c01Observe(c, hdr, made.Item, want, spec, "header cell, after mutating the item, before Update") {
				return
			}
			if !c01Behind(c, &cell, want, spec, "after mutating the item, before Update") || !c01Behind(c, live, want, spec, "inside a table, after mutating the item, before Update") {
				return
			}
			want = spec.TextWith(&nf)
			cell.Update()
			live.Update()
			if hdr != nil {
				hdr.Update()
				if !c01Observe(c, hdr, made.Item, want, spec, "header cell, after Update") {
					return
				}
			}
			if !c01Observe(c, &cell, made.Item, want, spec, "after Update") {
				return
			}
			if !c01Observe(c, live, made.Item, want, spec, "after Update") {
				return
			}
		}
	}
	// the journey into a table: the item may be mutated (without Update) at any point on the way - after NewCell,
	// after Row.Add, after AddRow - and bystander callbacks that do nothing may be registered on the table and
	// its columns; the cell keeps the text it read last until it is asked to update
	if made.Mutate != nil {
		m2 := spec.Make()
		w2 := spec.Text()
		t2 := tabular.New()
		t2.AddHeaders("h")
		noop := cbFunc(func(tabular.PropertyOwner) error { return nil })
		nreg := 0
		for k := r.Intn(4); k > 0; k-- {
			var owner tabular.PropertyOwner = t2
			ok := c13Table
			if r.Bool() {
				owner, ok = t2.Column(r.Intn(2)), c13Column
			}
			ti, tg := r.Intn(len(cbTimes)), r.Intn(len(cbTargets))
			if !c13Valid(ok, tg) {
				continue
			}
			if err := t2.RegisterPropertyCallback(owner, cbTimes[ti], cbTargets[tg], noop); err == nil {
				nreg++
			}
		}
		c.Rec.Count("journeys_into_a_table", 1)
		c.Rec.Count("journeys_bystander_callbacks_registered", int64(nreg))
		cell2 := tabular.NewCell(m2.Item)
		mut := func(where string) bool {
			if !r.Chance(1, 2) {
				return true
			}
			m2.Mutate(r.FieldsAny(c01Fam, 4))
			c.Rec.Count("journey_mutations_without_Update", 1)
			return true
		}
		mut("after NewCell")
		row := tabular.NewRow()
		row.Add(cell2)
		mut("after Row.Add")
		if cs := row.Cells(); len(cs) == 1 {
			if !c01Observe(c, &cs[0], m2.Item, w2, spec, "in a row not yet attached, item mutated without Update") {
				return
			}
		}
		t2.AddRow(row)
		mut("after AddRow")
		live2, err2 := t2.CellAt(tabular.CellLocation{Row: 1, Column: 1})
		if err2 != nil {
			c.Rec.Violate("cell-unreachable", fmt.Sprintf("CellAt(1,1) after AddRow: %v", err2), spec)
			return
		}
		if !c01Observe(c, live2, m2.Item, w2, spec, fmt.Sprintf("after the row joined a table (%d bystander callbacks), item mutated without Update", nreg)) {
			return
		}
		csv.Wrap(t2).Render()
		if !c01Observe(c, live2, m2.Item, w2, spec, "after a render, item mutated without Update") {
			return
		}
		if !c01Behind(c, live2, w2, spec, "after the journey into a table") {
			return
		}
		nf := r.FieldsAny(c01Fam, 4)
		m2.Mutate(nf)
		live2.Update()
		if !c01Observe(c, live2, m2.Item, spec.TextWith(&nf), spec, "after Update inside the table") {
			return
		}
	}
	// a cell holding a pointer to another cell: the outer re-reads only when updated
	if spec.K == "cellptr" && spec.Inner.K == "typed" {
		inner := spec.Inner.Make()
		if inner.Mutate != nil {
			ic := tabular.NewCell(inner.Item)
			outer := tabular.NewCell(&ic)
			w0 := spec.Inner.Text()
			nf := r.FieldsAny(c01Fam, 3)
			inner.Mutate(nf)
			ic.Update()
			c.Rec.Count("nested_mutations", 1)
			if got := outer.String(); got != w0 {
				c.Rec.Violate("text-form:nested-changed-without-Update", fmt.Sprintf("outer cell text changed to %q without Update (was %q)", got, w0), spec)
				return
			}
			outer.Update()
			if got, w1 := outer.String(), spec.Inner.TextWith(&nf); got != w1 {
				c.Rec.Violate("text-form:nested-after-Update", fmt.Sprintf("outer cell text after Update is %q, inner cell now reads %q", got, w1), spec)
				return
			}
		}
	}
}

// exhaustive part: every generated type x {value, pointer} x 4 text patterns, and fixed basic kinds
var c01Texts = []gen.Fields{
	{S: "S-text", G: "G-text", E: "E-text", HV: 2, WV: 3},
	{S: "", G: "G only", E: "", HV: 0, WV: 0},
	{S: "", G: "", E: "", HV: 5, WV: 5},
	{S: "multi\nline\n", G: "\xffinvalid", E: "wide \u4e16\u754c", HV: -1, WV: 40},
}

func c01Types(c *Ctx, i int, r *gen.R) {
	n := len(gen.TypeCodes)
	code := gen.TypeCodes[i%n]
	ptr := (i/n)%2 == 1
	f := c01Texts[(i/n/2)%len(c01Texts)]
	spec := gen.TypedItem(code, f, ptr)
	c01Check(c, &spec, r)
}

var c01Fixed = []gen.ItemSpec{
	{K: "nil"}, gen.StrItem(""), gen.StrItem("x"), gen.StrItem("\xff\xfe"), gen.StrItem("a\nb"),
	{K: "rune", Num: 'x'}, {K: "rune", Num: 0}, {K: "rune", Num: 0x4e16}, {K: "rune", Num: 0xD800}, {K: "rune", Num: 0x10FFFF}, {K: "rune", Num: 0x110000}, {K: "rune", Num: -1}, {K: "rune", Num: '\n'},
	{K: "int", Num: 0}, {K: "int", Num: -17}, {K: "int64", Num: 1 << 40}, {K: "uint8", Num: 65}, {K: "uint", Num: 7}, {K: "myint", Num: 5}, {K: "myrune", Num: 65},
	{K: "float", Flt: 1.5}, {K: "float", Flt: 1e21}, {K: "float", Flt: 0}, {K: "negzero"}, {K: "float32", Flt: 0}, {K: "negzero32"}, {K: "negzero"}, {K: "float", Flt: 0}, {K: "nan"}, {K: "inf"}, {K: "bool", Num: 1}, {K: "bool", Num: 0}, {K: "complex", Flt: 1, Num: 2},
	{K: "mystr", Str: "named string"}, {K: "mystr", Str: ""}, {K: "bytes", Str: "ab"}, {K: "slice", Str: "s", Num: 1}, {K: "map", Str: "m", Num: 2}, {K: "struct", Str: "st", Num: 3}, {K: "structptr", Str: "sp", Num: 4},
	{K: "err", Str: "boom"}, {K: "err", Str: ""}, {K: "dur", Num: 1500000000}, {K: "nilsafe"},
	// types whose only text method is fmt.Formatter (which %v honours), one per scalar kind and a struct
	{K: "fmtuint", Num: 1536}, {K: "fmtint16", Num: -40}, {K: "fmtstr", Str: "secret"}, {K: "fmtstr", Str: ""}, {K: "fmtbool", Num: 1}, {K: "fmtbool", Num: 0}, {K: "fmtfloat", Flt: 12.5}, {K: "fmtstruct", Num: 7},
	// by-value aggregates with interior references (mutable in place although not pointers)
	{K: "aggslice", Str: "first"}, {K: "aggstringer", Str: "state"}, {K: "aggstringer", Str: ""}, {K: "aggarrmap", Str: "v"},
	// unnamed struct types whose methods are promoted from embedded fields; typed strings of html/template and encoding/json
	{K: "anonG", Str: "promoted GoString"}, {K: "anonPS", Str: "promoted String through an embedded pointer"}, {K: "anonSE", Str: "promoted String beats promoted Error"},
	{K: "tplhtml", Str: "<b>bold</b> & more"}, {K: "tpljs", Str: "alert(1)"}, {K: "tplurl", Str: "javascript:x"}, {K: "tplattr", Str: "onclick=\"x\""}, {K: "jsonnumber", Str: "12.50"},
	{K: "ifacestruct", Str: "tags"}, {K: "ifacearr", Str: "x"},
	// the remaining kinds
	{K: "int8", Num: -8}, {K: "int16", Num: 300}, {K: "uint16", Num: 65535}, {K: "uint32", Num: 65}, {K: "uint64", Num: 1 << 62}, {K: "uintptr", Num: 4096}, {K: "complex64", Flt: 1.5, Num: 2}, {K: "array", Num: 1},
}

// c01Pointers: items that are pointers to values WITHOUT text methods.  For a pointer to a string, a number or a bool
// the default formatting is the address (whatever the pointee holds, and never empty); for a pointer to a struct,
// slice, map or array it is "&" and the content.  The expected text is what fmt makes of the very item, taken anew
// at every point where the cell is asked to read it.
type c01Name string

func c01Pointers(c *Ctx) {
	str, name, num, flt, flag := "alpha", c01Name("beta"), 7, 1.5, true
	pstr := &str
	st := &struct{ A, B string }{"x", "y"}
	sl := &[]string{"p", "q"}
	mp := &map[string]int{"k": 1}
	arr := &[2]string{"m", "n"}
	var iface interface{} = "in an interface"
	items := []struct {
		name   string
		item   interface{}
		mutate func()
	}{
		{"*string", pstr, func() { str = "" }},
		{"*named string type", &name, func() { name = "changed" }},
		{"*int", &num, func() { num = 0 }},
		{"*float64", &flt, func() { flt = -2 }},
		{"*bool", &flag, func() { flag = false }},
		{"**string", &pstr, func() { str = "again" }},
		{"*interface{}", &iface, func() { iface = 5 }},
		{"*struct", st, func() { st.A = "changed" }},
		{"*[]string", sl, func() { (*sl)[0] = "changed" }},
		{"*map", mp, func() { (*mp)["k"] = 2 }},
		{"*[2]string", arr, func() { arr[1] = "" }},
	}
	for _, it := range items {
		desc := map[string]interface{}{"item": it.name}
		c.Case = desc
		c.Rec.Count("pointer_items_without_text_methods", 1)
		want := fmt.Sprintf("%v", it.item)
		cell := tabular.NewCell(it.item)
		t := tabular.New()
		t.AddRowItems(it.item)
		live, err := t.CellAt(tabular.CellLocation{Row: 1, Column: 1})
		if err != nil {
			c.Rec.Violate("cell-unreachable", fmt.Sprint(err), desc)
			return
		}
		check := func(when string) bool {
			for k, cl := range []*tabular.Cell{&cell, live} {
				c.Rec.Count("observations", 1)
				if got := cl.String(); got != want {
					c.Rec.Violate("text-form:pointer-to-plain-value:"+it.name, fmt.Sprintf("%s: cell (%d) of a %s item reads %q; the default formatting of the item is %q", when, k, it.name, got, want), desc)
					return false
				}
				if cl.Empty() != (want == "") {
					c.Rec.Violate("empty-flag:pointer-to-plain-value:"+it.name, fmt.Sprintf("%s: cell of a %s item with text %q reports Empty()=%v", when, it.name, want, cl.Empty()), desc)
					return false
				}
				if cl.Item() != it.item {
					c.Rec.Violate("item-identity:pointer", fmt.Sprintf("%s: Item() is not the pointer stored", when), desc)
					return false
				}
			}
			return true
		}
		if !check("after NewCell") {
			return
		}
		it.mutate()
		if !check("after the pointee changed, before Update") {
			return
		}
		want = fmt.Sprintf("%v", it.item)
		cell.Update()
		live.Update()
		if !check("after Update") {
			return
		}
	}
}

func c01FixedRun(c *Ctx, i int, r *gen.R) {
	if i == 0 {
		c01Pointers(c)
	}
	if i < len(c01Fixed) {
		spec := c01Fixed[i]
		c01Check(c, &spec, r)
		return
	}
	// every fixed kind nested in a Cell and in a *Cell
	j := i - len(c01Fixed)
	inner := c01Fixed[j%len(c01Fixed)]
	spec := gen.ItemSpec{K: []string{"cell", "cellptr"}[j/len(c01Fixed)], Inner: &inner}
	c01Check(c, &spec, r)
}

func init() {
	nt := len(gen.TypeCodes)
	register(&Prop{
		ID:    "C01",
		Level: "exploration",
		Rule: "phase 0 (exhaustive): all 64 generated item types (every subset of {String,GoString,Error} x every subset of {Height,TerminalCellWidth}, value receivers and pointer receivers) x {passed by value, passed by pointer} x 4 field patterns (all distinct, only GoString non-empty, all empty, multi-line/invalid/wide); phase 1 (exhaustive): 76 fixed basic items (nil, strings, 8 runes incl. 0, surrogate, U+10FFFF, out of range, negative; every integer/float/bool/complex kind incl. float32, both signed zeros in both orders, NaN and Inf; named string/rune/int types; bytes, slice, map, struct, *struct, error values, time.Duration, nil pointer with nil-safe String) bare, nested in a Cell and in a *Cell; " +
			"phase 2: random items from the whole zoo with texts of 0-6 atoms from all 13 alphabets, nested to depth 3. Each item: NewCell -> String/Empty/Item; the same in a table via CellAt and through the CSV renderer; for items mutable in place 3 rounds of mutate / observe unchanged / Update / observe new. " +
			"Distinct = distinct (kind, type code, passing mode, expected text); non-trivial = not a plain string.",
		Assumptions: []string{
			"fmt's %v defines the fallback text form",
			"items whose own methods panic (for example a nil pointer to a type with value-receiver String) are outside the statement",
			"the numeric width/height a size-overriding item reports is not asserted here (C04/C18)",
		},
		Phases: []Phase{
			{Name: "64 generated types x by-value/by-pointer x 4 field patterns", Exhaustive: true, N: Fixed(nt*2*4, nt*2*4), Run: c01Types},
			{Name: "76 fixed basic items bare / in Cell / in *Cell", Exhaustive: true, N: Fixed(len(c01Fixed)*3, len(c01Fixed)*3), Run: c01FixedRun},
			{Name: "random items from the whole zoo", N: Fixed(5000, 5000000), Run: func(c *Ctx, i int, r *gen.R) {
				spec := r.AnyItem(c01Fam, 6, 3)
				c01Check(c, &spec, r)
			}},
		},
	})
}
