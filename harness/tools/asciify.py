#!/usr/bin/env python3
# Rewrites non-ASCII characters in Go sources as \u / \U escapes (they only
# occur inside interpreted string literals in this harness).
import sys
for p in sys.argv[1:]:
    s = open(p, encoding='utf-8').read()
    out = []
    ch = False
    for c in s:
        o = ord(c)
        if o < 128: out.append(c)
        elif o < 0x10000: out.append('\\u%04x' % o); ch = True
        else: out.append('\\U%08x' % o); ch = True
    if ch:
        open(p, 'w', encoding='utf-8').write(''.join(out))
        print("asciified", p)
