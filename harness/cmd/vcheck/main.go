// vcheck runs the check of one property against the tabular tree this binary
// was just built from.
//
//	vcheck -prop C05 -tier quick            parent: spawns shard children, merges, writes evidence, prints verdict
//	vcheck -prop C05 -replay <file>         re-executes the single case recorded in a replay file
//	vcheck -child ...                       internal
//
// Exit status: 0 held on everything observed; 1 violation (VIOLATION line);
// 2 inconclusive (INCONCLUSIVE line) - never folded into the other two.
package main

import (
	"encoding/binary"
	"encoding/json"
	"flag"
	"fmt"
	"os"
	"os/exec"
	"path/filepath"
	"regexp"
	"runtime"
	"sort"
	"strconv"
	"strings"
	"sync"
	"syscall"
	"time"

	"verifharness/internal/ev"
	"verifharness/internal/props"
)

var (
	fProp    = flag.String("prop", "", "property id")
	fTier    = flag.String("tier", "quick", "quick|thorough")
	fSeed    = flag.Uint64("seed", 0, "PRNG seed (default $VERIF_SEED or 1)")
	fReplay  = flag.String("replay", "", "replay file")
	fChild   = flag.Bool("child", false, "internal: run one shard")
	fShard   = flag.Int("shard", 0, "internal")
	fNShards = flag.Int("nshards", 0, "number of shard processes (default: property's choice)")
	fOut     = flag.String("out", "", "internal: scratch dir")
	fAux     = flag.String("aux", "", "internal: auxiliary child mode")
	fList    = flag.Bool("list", false, "list properties")
)

func root() string {
	if r := os.Getenv("VERIF_ROOT"); r != "" {
		return r
	}
	return "/verif"
}

func main() {
	flag.Parse()
	if *fList {
		for _, id := range props.IDs() {
			fmt.Println(id)
		}
		return
	}
	if *fAux != "" {
		os.Exit(props.RunAux(*fAux, flag.Args()))
	}
	if *fSeed == 0 {
		*fSeed = 1
		if s := os.Getenv("VERIF_SEED"); s != "" {
			if v, err := strconv.ParseUint(s, 10, 64); err == nil && v != 0 {
				*fSeed = v
			} else if v, err := strconv.ParseInt(s, 10, 64); err == nil && v != 0 {
				*fSeed = uint64(v)
			}
		}
	}
	p := props.Registry[*fProp]
	if p == nil {
		fmt.Printf("INCONCLUSIVE property=%s reason=unknown-property\n", *fProp)
		os.Exit(2)
	}
	switch {
	case *fChild:
		os.Exit(child(p))
	case *fReplay != "":
		os.Exit(replay(p))
	default:
		os.Exit(parent(p))
	}
}

func known(prop string) map[string]string {
	all, err := ev.LoadKnown(filepath.Join(root(), "KNOWN_FINDINGS.txt"))
	if err != nil {
		fmt.Fprintf(os.Stderr, "cannot read KNOWN_FINDINGS.txt: %v\n", err)
	}
	return ev.KnownFor(all, prop)
}

func child(p *props.Prop) int {
	rec := ev.NewRecorder(p.ID, *fShard, *fTier, *fSeed, known(p.ID), filepath.Join(root(), "replays"))
	exe, _ := os.Executable()
	c := &props.Ctx{Rec: rec, Prop: p, Tier: *fTier, Thorough: *fTier == "thorough", Seed: *fSeed, Shard: *fShard, NShards: *fNShards, OutDir: *fOut, Exe: exe}
	prog, err := os.Create(filepath.Join(*fOut, fmt.Sprintf("shard-%d.progress", *fShard)))
	if err != nil {
		fmt.Fprintln(os.Stderr, err)
		return 3
	}
	props.StartCPUGuard(c, func() {
		prog.Close()
		rec.Finish(*fOut)
		os.Exit(0)
	})
	props.RunShard(c, prog)
	prog.Close()
	if err := rec.Finish(*fOut); err != nil {
		fmt.Fprintln(os.Stderr, "finish:", err)
		return 3
	}
	return 0
}

// shardEnv is the extra environment shard k starts with.
func shardEnv(k int) string {
	switch k % 4 {
	case 1:
		return "COLUMNS=20 LINES=5 TERM=dumb NO_COLOR=1 LANG=C LC_ALL=C LC_CTYPE=C"
	case 3:
		return "COLUMNS=400 LINES=100 TERM=xterm-256color COLORTERM=truecolor LANG=ja_JP.UTF-8 LC_ALL=ja_JP.UTF-8 LC_CTYPE=ja_JP.UTF-8"
	}
	return ""
}

func replay(p *props.Prop) int {
	b, err := os.ReadFile(*fReplay)
	if err != nil {
		fmt.Printf("INCONCLUSIVE property=%s reason=cannot-read-replay %v\n", p.ID, err)
		return 2
	}
	var v ev.Violation
	if err := json.Unmarshal(b, &v); err != nil {
		fmt.Printf("INCONCLUSIVE property=%s reason=bad-replay-file %v\n", p.ID, err)
		return 2
	}
	if v.ProcEnv != "" && os.Getenv("VERIF_PROC_ENV") != v.ProcEnv {
		// the case ran in a process started with other environment variables: start over with them
		self, _ := os.Executable()
		cmd := exec.Command(self, os.Args[1:]...)
		cmd.Env = append(append(os.Environ(), strings.Fields(v.ProcEnv)...), "VERIF_PROC_ENV="+v.ProcEnv)
		cmd.Stdout, cmd.Stderr = os.Stdout, os.Stderr
		if err := cmd.Run(); err != nil {
			if ee, ok := err.(*exec.ExitError); ok {
				return ee.ExitCode()
			}
			fmt.Printf("INCONCLUSIVE property=%s reason=cannot-restart-replay %v\n", p.ID, err)
			return 2
		}
		return 0
	}
	out, _ := os.MkdirTemp(filepath.Join(root(), ".build"), "replay-")
	defer os.RemoveAll(out)
	rec := ev.NewRecorder(p.ID, 0, v.Tier, v.Seed, known(p.ID), filepath.Join(root(), "replays"))
	exe, _ := os.Executable()
	c := &props.Ctx{Rec: rec, Prop: p, Tier: v.Tier, Thorough: v.Tier == "thorough", Seed: v.Seed, Shard: 0, NShards: 1, Verbose: true, OutDir: out, Exe: exe}
	if v.Phase < 0 || v.Phase >= len(p.Phases) {
		fmt.Printf("INCONCLUSIVE property=%s reason=replay-phase-out-of-range\n", p.ID)
		return 2
	}
	props.StartCPUGuard(c, func() {
		for _, x := range rec.Result().Violations {
			fmt.Printf("  %s: %s\n", x.Key, x.Msg)
			fmt.Printf("VIOLATION property=%s replay=%s\n", p.ID, x.Replay)
		}
		os.Exit(1)
	})
	if v.Env == props.EnvOneProc {
		runtime.GOMAXPROCS(1)
	}
	if v.Env == props.EnvEastAsian {
		// the case first runs with the setting off (as it did earlier in the process), judged by a recorder nobody reads
		warm := *c
		warm.Rec = ev.NewRecorder(p.ID, 0, v.Tier, v.Seed, known(p.ID), out)
		props.RunCase(&warm, v.Phase, v.Index)
		props.SwitchEastAsianWidth(c)
	}
	props.RunCase(c, v.Phase, v.Index)
	res := rec.Result()
	for k, n := range res.Known {
		fmt.Printf("KNOWN-FINDING: property=%s %s (key=%s, seen %d times)\n", p.ID, res.KnownExample[k], k, n)
	}
	if len(res.Violations) > 0 {
		for _, x := range res.Violations {
			fmt.Printf("  %s: %s\n", x.Key, x.Msg)
			fmt.Printf("VIOLATION property=%s replay=%s\n", p.ID, x.Replay)
		}
		return 1
	}
	fmt.Printf("replayed phase %d case %d of %s (seed %d): held\n", v.Phase, v.Index, p.ID, v.Seed)
	return 0
}

func parent(p *props.Prop) int {
	start := time.Now()
	thorough := *fTier == "thorough"
	n := *fNShards
	if n == 0 {
		n = 16
		if p.Shards != nil {
			n = p.Shards(thorough)
		}
		if s := os.Getenv("VERIF_SHARDS"); s != "" {
			if v, err := strconv.Atoi(s); err == nil && v > 0 {
				n = v
			}
		}
	}
	base := filepath.Join(root(), ".build", "run")
	os.MkdirAll(base, 0o755)
	out, err := os.MkdirTemp(base, p.ID+"-"+*fTier+"-")
	if err != nil {
		fmt.Printf("INCONCLUSIVE property=%s reason=no-scratch-dir %v\n", p.ID, err)
		return 2
	}
	exe, _ := os.Executable()
	watchdog := 20 * time.Minute
	if thorough {
		watchdog = 150 * time.Minute
	}
	if s := os.Getenv("VERIF_WATCHDOG_S"); s != "" {
		if v, err := strconv.Atoi(s); err == nil && v > 0 {
			watchdog = time.Duration(v) * time.Second
		}
	}

	type st struct {
		err      error
		timedOut bool
	}
	states := make([]st, n)
	var wg sync.WaitGroup
	for k := 0; k < n; k++ {
		wg.Add(1)
		go func(k int) {
			defer wg.Done()
			logf, _ := os.Create(filepath.Join(out, fmt.Sprintf("shard-%d.log", k)))
			defer logf.Close()
			cmd := exec.Command(exe, "-child", "-prop", p.ID, "-tier", *fTier, "-seed", strconv.FormatUint(*fSeed, 10),
				"-shard", strconv.Itoa(k), "-nshards", strconv.Itoa(n), "-out", out)
			cmd.Stdout, cmd.Stderr = logf, logf
			cmd.Env = append(os.Environ(), "GOTRACEBACK=all")
			// what a program finds in its environment is not up to the library: some shards start with the variables
			// of a narrow dumb terminal in the C locale, some with those of a wide terminal in a Japanese locale (from
			// which the width library the tabular packages measure with derives its East Asian setting at start-up)
			if pe := shardEnv(k); pe != "" && !p.Race {
				cmd.Env = append(cmd.Env, strings.Fields(pe)...)
				cmd.Env = append(cmd.Env, "VERIF_PROC_ENV="+pe)
			}
			if p.Race {
				cmd.Env = append(cmd.Env, "GORACE=halt_on_error=0 history_size=4 log_path="+filepath.Join(out, fmt.Sprintf("race-%d", k)))
			}
			if err := cmd.Start(); err != nil {
				states[k].err = err
				return
			}
			done := make(chan error, 1)
			go func() { done <- cmd.Wait() }()
			select {
			case err := <-done:
				states[k].err = err
			case <-time.After(watchdog):
				states[k].timedOut = true
				cmd.Process.Signal(syscall.SIGQUIT)
				select {
				case <-done:
				case <-time.After(10 * time.Second):
					cmd.Process.Kill()
					<-done
				}
			}
		}(k)
	}
	wg.Wait()

	// ---- merge
	var (
		evals     int64
		counters  = map[string]int64{}
		samples   []interface{}
		viols     []ev.Violation
		knownSeen = map[string]int64{}
		knownEx   = map[string]string{}
		inconcl   []string
		allHashes [][]uint64
		kn        = known(p.ID)
		replayDir = filepath.Join(root(), "replays")
		maxGauges = map[string]bool{}
	)
	for k := 0; k < n; k++ {
		res, hs, lerr := ev.LoadShard(out, k)
		if states[k].timedOut {
			inconcl = append(inconcl, fmt.Sprintf("shard %d: wall-clock watchdog (%v) fired; see %s", k, watchdog, filepath.Join(out, fmt.Sprintf("shard-%d.log", k))))
		} else if states[k].err != nil || lerr != nil || res == nil || !res.Done {
			// the child died: a process-fatal runtime error inside a library call is a violation on the case in progress
			logb, _ := os.ReadFile(filepath.Join(out, fmt.Sprintf("shard-%d.log", k)))
			logs := string(logb)
			pi, idx := readProgress(filepath.Join(out, fmt.Sprintf("shard-%d.progress", k)))
			if strings.Contains(logs, "fatal error:") || strings.Contains(logs, "panic:") || strings.Contains(logs, "goroutine ") {
				site := props.PanicSite(logs)
				if strings.Contains(logs, "fatal error:") {
					i := strings.Index(logs, "fatal error:")
					e := strings.IndexByte(logs[i:], '\n')
					if e < 0 {
						e = len(logs) - i
					}
					site = "fatal:" + strings.TrimSpace(logs[i+12:i+e])
				}
				v := ev.Violation{Prop: p.ID, Key: "process-fatal@" + site, Msg: fmt.Sprintf("shard %d died with a process-fatal runtime error while running phase %d case %d (child exit: %v)", k, pi, idx, states[k].err), Tier: *fTier, Seed: *fSeed, Phase: pi, Index: idx, Stack: tail(logs, 6000)}
				if _, ok := kn[v.Key]; ok {
					knownSeen[v.Key]++
					knownEx[v.Key] = v.Msg
				} else {
					os.MkdirAll(replayDir, 0o755)
					v.Replay = filepath.Join(replayDir, fmt.Sprintf("%s-%s-s%d-p%d-i%d-fatal.json", p.ID, *fTier, *fSeed, pi, idx))
					b, _ := json.MarshalIndent(&v, "", " ")
					os.WriteFile(v.Replay, b, 0o644)
					viols = append(viols, v)
				}
			} else {
				inconcl = append(inconcl, fmt.Sprintf("shard %d ended abnormally (%v, load error %v) without a runtime error message; see %s", k, states[k].err, lerr, out))
			}
		}
		if res != nil {
			evals += res.Evaluations
			for name, v := range res.Counters {
				if strings.HasPrefix(name, "max:") {
					maxGauges[name] = true
					if v > counters[name] {
						counters[name] = v
					}
				} else {
					counters[name] += v
				}
			}
			if len(samples) < 4 {
				for _, s := range res.Samples {
					if len(samples) < 4 {
						samples = append(samples, s)
					}
				}
			}
			viols = append(viols, res.Violations...)
			for key, c := range res.Known {
				knownSeen[key] += c
				if _, ok := knownEx[key]; !ok {
					knownEx[key] = res.KnownExample[key]
				}
			}
			inconcl = append(inconcl, res.Inconclusive...)
			allHashes = append(allHashes, hs)
		}
	}
	distinct := ev.DistinctCount(allHashes)

	// ---- race-detector logs
	raceBlocks, raceDistinct := 0, 0
	if p.Race {
		blocks := collectRaceBlocks(out)
		raceBlocks = len(blocks)
		seen := map[string]string{}
		for _, b := range blocks {
			sig := raceSignature(b)
			if _, ok := seen[sig]; !ok {
				seen[sig] = b
			}
		}
		raceDistinct = len(seen)
		sigs := make([]string, 0, len(seen))
		for s := range seen {
			sigs = append(sigs, s)
		}
		sort.Strings(sigs)
		for _, sig := range sigs {
			if !strings.Contains(seen[sig], "go.pennock.tech/tabular") {
				inconcl = append(inconcl, "race report without any tabular frame (harness fault?): "+sig)
				continue
			}
			v := ev.Violation{Prop: p.ID, Key: "race:" + sig, Msg: "race detector report involving tabular code: " + sig, Tier: *fTier, Seed: *fSeed, Stack: tail(seen[sig], 8000)}
			if _, ok := kn[v.Key]; ok {
				knownSeen[v.Key]++
				knownEx[v.Key] = v.Msg
				continue
			}
			os.MkdirAll(replayDir, 0o755)
			v.Replay = filepath.Join(replayDir, fmt.Sprintf("%s-%s-s%d-race-%d.json", p.ID, *fTier, *fSeed, len(viols)))
			b, _ := json.MarshalIndent(&v, "", " ")
			os.WriteFile(v.Replay, b, 0o644)
			viols = append(viols, v)
		}
		counters["race_log_blocks"] = int64(raceBlocks)
		counters["race_distinct_signatures"] = int64(raceDistinct)
	}

	// ---- verdict
	// de-duplicate violations by key across shards
	sort.SliceStable(viols, func(i, j int) bool {
		if viols[i].Phase != viols[j].Phase {
			return viols[i].Phase < viols[j].Phase
		}
		return viols[i].Index < viols[j].Index
	})
	var uniq []ev.Violation
	seenKey := map[string]bool{}
	for _, v := range viols {
		if !seenKey[v.Key] {
			seenKey[v.Key] = true
			uniq = append(uniq, v)
		}
	}
	if evals == 0 {
		inconcl = append(inconcl, "the monitors observed zero cases")
	} else if distinct < 2 && len(uniq) == 0 {
		inconcl = append(inconcl, fmt.Sprintf("only %d distinct non-trivial cases observed", distinct))
	}

	exhaustive := len(p.Phases) > 0
	var phases []map[string]interface{}
	for i := range p.Phases {
		ph := &p.Phases[i]
		phases = append(phases, map[string]interface{}{"name": ph.Name, "cases": ph.N(thorough), "exhaustive": ph.Exhaustive})
		if !ph.Exhaustive {
			exhaustive = false
		}
	}
	if len(samples) == 0 {
		samples = append(samples, "no sample recorded")
	}
	dn := distinct
	cov := map[string]interface{}{
		"evaluations":         evals,
		"distinct_nontrivial": dn,
		"rule":                p.Rule,
		"samples":             samples,
		"exhaustive":          exhaustive,
		"phases":              phases,
		"observed":            counters,
		"shards":              n,
		"known_findings_seen": knownSeen,
		"inconclusive":        inconcl,
		"verdict":             verdictWord(len(uniq), len(inconcl)),
	}
	e := ev.Evidence{PropertyID: p.ID, Tier: *fTier, Seed: int64(*fSeed), Level: p.Level, Coverage: cov, Assumptions: p.Assumptions, WallS: time.Since(start).Seconds(), Violations: len(uniq)}
	evPath := filepath.Join(root(), "evidence", p.ID+".json")
	if err := e.Write(evPath); err != nil {
		inconcl = append(inconcl, "cannot write evidence: "+err.Error())
	}

	fmt.Printf("%s %s seed=%d: %d evaluations, %d distinct non-trivial, %d shards, %.1fs\n", p.ID, *fTier, *fSeed, evals, distinct, n, time.Since(start).Seconds())
	keys := make([]string, 0, len(counters))
	for k := range counters {
		keys = append(keys, k)
	}
	sort.Strings(keys)
	details := 0
	for _, k := range keys {
		if strings.HasPrefix(k, "detail:") {
			details++
			continue
		}
		fmt.Printf("  observed %-44s %d\n", k, counters[k])
	}
	if details > 0 {
		fmt.Printf("  (+ %d per-type/per-kind counters in the evidence file)\n", details)
	}
	knownKeys := make([]string, 0, len(kn))
	for k := range kn {
		knownKeys = append(knownKeys, k)
	}
	sort.Strings(knownKeys)
	for _, k := range knownKeys {
		if knownSeen[k] > 0 {
			fmt.Printf("KNOWN-FINDING: property=%s %s (key=%s, observed %d times; e.g. %s)\n", p.ID, kn[k], k, knownSeen[k], oneLine(knownEx[k]))
		} else {
			fmt.Printf("KNOWN-FINDING: property=%s %s (key=%s, not reached by this run)\n", p.ID, kn[k], k)
		}
	}
	code := 0
	if len(uniq) > 0 {
		for _, v := range uniq {
			fmt.Printf("  violation key=%s phase=%d case=%d: %s\n", v.Key, v.Phase, v.Index, oneLine(v.Msg))
			fmt.Printf("VIOLATION property=%s replay=%s\n", p.ID, v.Replay)
		}
		code = 1
	} else if len(inconcl) > 0 {
		for _, m := range inconcl {
			fmt.Printf("INCONCLUSIVE property=%s reason=%s\n", p.ID, oneLine(m))
		}
		code = 2
	} else {
		fmt.Printf("HELD property=%s on everything observed\n", p.ID)
	}
	if code == 0 && os.Getenv("VERIF_KEEP") == "" {
		os.RemoveAll(out)
	} else {
		fmt.Printf("  run directory kept: %s\n", out)
	}
	return code
}

func verdictWord(v, inc int) string {
	switch {
	case v > 0:
		return "violated"
	case inc > 0:
		return "inconclusive"
	}
	return "held on what was observed"
}

func oneLine(s string) string {
	s = strings.ReplaceAll(s, "\n", " / ")
	if len(s) > 400 {
		s = s[:400] + "..."
	}
	return s
}

func tail(s string, n int) string {
	if len(s) > n {
		return s[:n/2] + "\n...\n" + s[len(s)-n/2:]
	}
	return s
}

func readProgress(path string) (int, int) {
	b, err := os.ReadFile(path)
	if err != nil || len(b) < 16 {
		return 0, 0
	}
	return int(binary.LittleEndian.Uint64(b[0:])), int(binary.LittleEndian.Uint64(b[8:]))
}

// collectRaceBlocks reads every race-detector log of the run and splits it
// into report blocks.
func collectRaceBlocks(dir string) []string {
	files, _ := filepath.Glob(filepath.Join(dir, "race-*"))
	var blocks []string
	for _, f := range files {
		b, err := os.ReadFile(f)
		if err != nil {
			continue
		}
		parts := strings.Split(string(b), "==================")
		for _, p := range parts {
			if strings.Contains(p, "WARNING: DATA RACE") {
				blocks = append(blocks, p)
			}
		}
	}
	return blocks
}

var frameRe = regexp.MustCompile(`(?m)^  ([^\s(]+)\(`)

// raceSignature de-duplicates reports by the outermost tabular frame of each
// of the two conflicting accesses (line numbers stripped).
func raceSignature(block string) string {
	secs := regexp.MustCompile(`(?m)^(Read|Write|Previous read|Previous write|Atomic|Previous atomic)[^\n]*\n`).Split(block, -1)
	var sig []string
	for _, s := range secs[1:] {
		// stop at the "Goroutine N ... created at" parts
		if i := strings.Index(s, "\nGoroutine "); i >= 0 {
			s = s[:i]
		}
		frames := frameRe.FindAllStringSubmatch(s, -1)
		inner, outer := "", ""
		for _, f := range frames {
			if strings.HasPrefix(f[1], "go.pennock.tech/tabular") {
				if inner == "" {
					inner = f[1]
				}
				outer = f[1]
			}
		}
		if inner == "" && len(frames) > 0 {
			inner = frames[0][1]
			outer = inner
		}
		sig = append(sig, inner+"<-"+outer)
		if len(sig) == 2 {
			break
		}
	}
	sort.Strings(sig)
	return strings.Join(sig, " | ")
}
