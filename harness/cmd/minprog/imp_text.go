//go:build min_text

package main

import (
	"go.pennock.tech/tabular"
	"go.pennock.tech/tabular/texttable"
)

func init() {
	routes["New+Render"] = func(build func(tabular.Table), _ string) (string, error) {
		t := texttable.New()
		build(t)
		return t.Render()
	}
	routes["Wrap+Render"] = func(build func(tabular.Table), _ string) (string, error) {
		t := tabular.New()
		build(t)
		return texttable.Wrap(t).Render()
	}
	routes["Wrap+SetDecorationNamed+Render"] = func(build func(tabular.Table), name string) (string, error) {
		t := tabular.New()
		build(t)
		tt, err := texttable.Wrap(t).SetDecorationNamed(name)
		if err != nil {
			return "", err
		}
		return tt.Render()
	}
}
