//go:build min_auto

package main

import (
	"go.pennock.tech/tabular"
	"go.pennock.tech/tabular/auto"
)

func init() {
	listing = auto.ListStyles
	routes["auto.New+Render"] = func(build func(tabular.Table), style string) (string, error) {
		t := auto.New(style)
		build(t)
		return t.Render()
	}
	routes["auto.Render"] = func(build func(tabular.Table), style string) (string, error) {
		t := tabular.New()
		build(t)
		return auto.Render(t, style)
	}
	routes["auto.Wrap+Render"] = func(build func(tabular.Table), style string) (string, error) {
		t := tabular.New()
		build(t)
		return auto.Wrap(t, style).Render()
	}
}
