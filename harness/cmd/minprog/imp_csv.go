//go:build min_csv

package main

import (
	"go.pennock.tech/tabular"
	"go.pennock.tech/tabular/csv"
)

func init() {
	routes["New+Render"] = func(build func(tabular.Table), _ string) (string, error) {
		t := csv.New()
		build(t)
		return t.Render()
	}
	routes["Wrap+Render"] = func(build func(tabular.Table), _ string) (string, error) {
		t := tabular.New()
		build(t)
		return csv.Wrap(t).Render()
	}
}
