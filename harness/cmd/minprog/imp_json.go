//go:build min_json

package main

import (
	"go.pennock.tech/tabular"
	"go.pennock.tech/tabular/json"
)

func init() {
	routes["New+Render"] = func(build func(tabular.Table), _ string) (string, error) {
		t := json.New()
		build(t)
		return t.Render()
	}
	routes["Wrap+Render"] = func(build func(tabular.Table), _ string) (string, error) {
		t := tabular.New()
		build(t)
		return json.Wrap(t).Render()
	}
}
