// Command minprog is a program that links only PART of the library: which rendering packages it imports is chosen
// by a build tag (min_auto: only tabular and tabular/auto; min_csv, min_html, min_json, min_markdown, min_text: only
// tabular and that one sub-package).  It reads jobs (a small table and a list of routes) as JSON on stdin, renders,
// and writes the results as JSON; the check running in the fully linked harness compares them with what the same
// calls give there.  What a style or a package-level function does must not depend on what else the program links.
package main

import (
	"encoding/json"
	"fmt"
	"os"

	"go.pennock.tech/tabular"
)

// Job is one table and the routes to render it by.
type Job struct {
	Header []string   `json:"header"`
	Rows   [][]string `json:"rows"` // a nil row is a separator
	Routes []string   `json:"routes"`
}

// Result is what one route gave.
type Result struct {
	Route string `json:"route"`
	Out   string `json:"out"`
	Err   string `json:"err,omitempty"`
	Panic string `json:"panic,omitempty"`
}

// routes is filled by the tag-selected file: route name -> renderer over a freshly built table
var routes = map[string]func(build func(tabular.Table), arg string) (string, error){}

// listing, if set by the tag-selected file, reports what the program's style listing advertises
var listing func() []string

func main() {
	var jobs []Job
	if err := json.NewDecoder(os.Stdin).Decode(&jobs); err != nil {
		fmt.Fprintln(os.Stderr, "minprog: bad input:", err)
		os.Exit(3)
	}
	type outT struct {
		Listing []string   `json:"listing,omitempty"`
		Results [][]Result `json:"results"`
	}
	var out outT
	if listing != nil {
		out.Listing = listing()
	}
	for _, j := range jobs {
		j := j
		build := func(t tabular.Table) {
			if j.Header != nil {
				hs := make([]interface{}, len(j.Header))
				for i := range hs {
					hs[i] = j.Header[i]
				}
				t.AddHeaders(hs...)
			}
			for _, r := range j.Rows {
				if r == nil {
					t.AddSeparator()
					continue
				}
				items := make([]interface{}, len(r))
				for i := range items {
					items[i] = r[i]
				}
				t.AddRowItems(items...)
			}
		}
		var rs []Result
		for _, name := range j.Routes {
			rs = append(rs, run(name, build))
		}
		out.Results = append(out.Results, rs)
	}
	json.NewEncoder(os.Stdout).Encode(out)
}

func run(name string, build func(tabular.Table)) (res Result) {
	res.Route = name
	defer func() {
		if x := recover(); x != nil {
			res.Panic = fmt.Sprint(x)
		}
	}()
	// a route is "kind" or "kind:argument"
	kind, arg := name, ""
	for i := 0; i < len(name); i++ {
		if name[i] == ':' {
			kind, arg = name[:i], name[i+1:]
			break
		}
	}
	f := routes[kind]
	if f == nil {
		res.Err = "minprog: route not available in this program"
		return
	}
	out, err := f(build, arg)
	res.Out = out
	if err != nil {
		res.Err = err.Error()
		if res.Err == "" {
			res.Err = "(error with empty message)"
		}
	}
	return
}
