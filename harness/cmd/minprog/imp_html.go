//go:build min_html

package main

import (
	"go.pennock.tech/tabular"
	"go.pennock.tech/tabular/html"
)

func init() {
	routes["New+Render"] = func(build func(tabular.Table), _ string) (string, error) {
		t := html.New()
		build(t)
		return t.Render()
	}
	routes["Wrap+Render"] = func(build func(tabular.Table), _ string) (string, error) {
		t := tabular.New()
		build(t)
		return html.Wrap(t).Render()
	}
}
