//go:build min_markdown

package main

import (
	"go.pennock.tech/tabular"
	"go.pennock.tech/tabular/markdown"
)

func init() {
	routes["New+Render"] = func(build func(tabular.Table), _ string) (string, error) {
		t := markdown.New()
		build(t)
		return t.Render()
	}
	routes["Wrap+Render"] = func(build func(tabular.Table), _ string) (string, error) {
		t := tabular.New()
		build(t)
		return markdown.Wrap(t).Render()
	}
}
