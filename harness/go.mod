module verifharness

go 1.23

require (
	github.com/anishathalye/porcupine v1.3.0
	github.com/mattn/go-runewidth v0.0.14
	go.pennock.tech/tabular v0.0.0
)

require github.com/rivo/uniseg v0.4.4 // indirect

replace go.pennock.tech/tabular => /repo
