#!/bin/bash
# Offline setup after a fresh restore: builds both harness variants (plain and
# -race) against the current /repo so that the first check run is fast.
set -eu
HERE="$(cd "$(dirname "${BASH_SOURCE[0]}")" && pwd)"
export GOFLAGS=-mod=mod GOPROXY=off GOSUMDB=off GOTOOLCHAIN=local CGO_ENABLED=1
mkdir -p "$HERE/.build/bin" "$HERE/.build/run" "$HERE/evidence" "$HERE/replays"
cd "$HERE/harness"
go build -tags verif -o "$HERE/.build/bin/vcheck-std" ./cmd/vcheck
go build -tags verif -race -o "$HERE/.build/bin/vcheck-std-race" ./cmd/vcheck
for m in auto csv html json markdown text; do go build -tags "verif min_$m" -o "$HERE/.build/bin/min-std-$m" ./cmd/minprog; done
"$HERE/.build/bin/vcheck-std" -list | tr '\n' ' '; echo
echo "setup ok"
