#!/bin/bash
# tools/run_all.sh <quick|thorough> [props...]: runs the checks one after another, prints exit status and time.
TIER="${1:-quick}"; shift
HERE="$(cd "$(dirname "${BASH_SOURCE[0]}")/.." && pwd)"
PROPS="${*:-C01 C02 C03 C04 C05 C06 C07 C08 C09 C10 C11 C12 C13 C14 C15 C16 C17 C18 C19}"
mkdir -p "$HERE/.build/all" "$HERE/evidence/thorough"
for p in $PROPS; do
  s=$(date +%s)
  "$HERE/run.sh" $p $TIER > "$HERE/.build/all/$p-$TIER.log" 2>&1; e=$?
  t=$(( $(date +%s) - s ))
  echo "$p $TIER exit=$e ${t}s $(head -1 "$HERE/.build/all/$p-$TIER.log")"
  if [ "$TIER" = thorough ] && [ $e -eq 0 ]; then cp "$HERE/evidence/$p.json" "$HERE/evidence/thorough/$p.json"; fi
done
