#!/usr/bin/env python3
# tools/assemble_results.py <log>...: builds selftest/RESULTS.tsv from the printed lines of several (parallel, filtered)
# runs of selftest/run_mutants.sh; for a mutant that was run more than once the LAST result wins.
import re, sys, os
here = os.path.dirname(os.path.dirname(os.path.abspath(__file__)))
rows = {}
order = []
pat = re.compile(r'^(\S+)\s+(pass|FAIL|-)\s+(\S*)\s+(.*?)\s+\[([^\]]+)\]\s*$')
for f in sys.argv[1:]:
    for line in open(f, errors='replace'):
        line = line.rstrip('\n')
        if line.startswith('mutant ') or 'WARNING conda' in line:
            continue
        m = pat.match(line)
        if not m:
            if 'PATCH DOES NOT APPLY' in line:
                name = line.split()[0]
                if name not in rows:
                    order.append(name)
                rows[name] = (name, '-', '', 'PATCH DOES NOT APPLY', '-')
            continue
        name, suite, expected, fired, verdict = m.groups()
        # the "expected" column is empty for changes that were not adopted: the regexp then reads "fired" into it
        if expected and not re.match(r'^(NONE|C\d\d(,C\d\d)*)$', expected):
            fired, expected = (expected + ' ' + fired).strip(), ''
        fired = fired.strip()
        if fired == 'none':
            fired = ''
        if name not in rows:
            order.append(name)
        rows[name] = (name, suite, expected, fired, verdict)
# the round-1 change C13 is neutralised by the later fix dbf4eb3 (registration lists are copied on append): on the
# current tree its patch changes nothing observable (see its meta.json); it is kept for the record
if 'seeded-C13' in rows:
    rows['seeded-C13'] = ('seeded-C13', rows['seeded-C13'][1], '', rows['seeded-C13'][3], '-')
def key(n):
    for i, p in enumerate(('r', 'm', 'p', 'refactor-', 'seeded-')):
        if n.startswith(p) and (p != 'r' or not n.startswith('refactor-')):
            return (i, n)
    return (9, n)
with open(os.path.join(here, 'selftest', 'RESULTS.tsv'), 'w') as out:
    for n in sorted(order, key=key):
        out.write('\t'.join(rows[n]) + '\n')
from collections import Counter
c = Counter(v[4] for v in rows.values())
print(len(rows), dict(c))
