#!/usr/bin/env python3
"""Writes /verif/MANIFEST.json.  Properties listed in BUILT are claimed; every
other property of properties.jsonl goes to not_applicable with the reason it is
not claimed (yet)."""
import json, os, sys

HERE = os.path.dirname(os.path.dirname(os.path.abspath(__file__)))

BUILT = [l.strip() for l in open(os.path.join(HERE, "tools", "built.txt")) if l.strip() and not l.startswith("#")]

CHECKS = {
 "C01": dict(cat="exploration", tech="runtime monitor: reference text-form oracle over generated item types (all 64 interface-subset types, basic kinds, nested cells), mutate/Update observation, read-back through renderers",
   text="Every generated item is stored in a real cell and the cell's text / emptiness / Item() are compared with an 8-line text-form function written from the statement, before and after mutation and Update; held on the K items observed (evidence says K and which dynamic types). Exploration is the right level: the domain is all dynamic types, which no finite run exhausts, but the dispatch has only a few dozen distinguishable classes and all are enumerated.",
   note="Trusts fmt's %v as the definition of the fallback form and the harness's own knowledge of which interfaces a generated type implements. Items whose own methods panic are outside the statement."),
 "C02": dict(cat="exploration", tech="runtime monitor: per-step comparison of the real table with a reference table model over generated and bounded-exhaustive build histories",
   text="After every operation of a build history the full observable state (NRows, NColumns, AllRows identity/order, CellAt and Location over an over-wide coordinate window, Column(n) existence, AllRows copy isolation) is compared with a reference model; bounded-exhaustive over short histories plus random long ones.",
   note="The reference model (~80 lines) is trusted. A *Row attached twice is outside the quantifier."),
 "C03": dict(cat="exploration", tech="runtime monitor: structural parser of the rendered text table (rules, slots, divider offsets) against the model grid, under every registered and random Populate()d decoration",
   text="Rendered output is parsed line by line against the grid of cell texts: line kinds and counts, every column exactly w_i+2 wide on every line, dividers one cell wide at the same offsets; no golden strings. Half of the cases are staged: the wrapper is created first and renders the partial table under other settings before the build is completed, items are mutated (+Update) and the judged render is made through the same wrapper. Held on the K (table, decoration) pairs observed.",
   note="Display width is the library's own length.StringCells (the property defines width that way); glyph identity is not asserted."),
 "C04": dict(cat="exploration", tech="runtime monitor: the C03 parser with the padding split fixed by the effective alignment, and size-overriding items",
   text="Each slot must be byte-equal to pad_l+text+pad_r with the split dictated by the column's effective alignment (own, else column 0, else left); single-line width-declaring items are laid out by their declared width; height-declaring rows have at least the declared and the actual number of lines. Staged mode as in C03, with another alignment assignment in force at the earlier renders and withdrawals before the judged one.",
   note="Same trust as C03; multi-line items that also declare a width are only checked for line counts and for the other columns."),
 "C05": dict(cat="exploration", tech="runtime monitor: strict byte-level RFC 4180 all-quoted state-machine parser of the CSV output, compared with the model grid",
   text="Successful CSV output must be consumed entirely by a strict all-fields-quoted parser and read back byte for byte as header + non-separator rows, NColumns fields each; a 0-column table must be refused. Texts are drawn short, medium (tens of bytes) and boundary-sized (255..4100 bytes); half of the cases are staged (same wrapper renders the partial table first).",
   note="The parser (40 lines) is trusted; no stock CSV reader is involved."),
 "C06": dict(cat="exploration", tech="runtime monitor: strict HTML tokenizer + stdlib entity decoding of the output against the model; the row-class generator is itself the call-sequence monitor",
   text="The token stream must be exactly the fixed skeleton; every text and attribute value must entity-decode to the supplied string; generator calls must be [0, 1-based positions of non-separator rows], once each. Half of the cases are staged (same wrapper first renders the partial table under another id/class/caption/generator); in a sixth of them the rows are also collected into a second table.",
   note="html.UnescapeString is trusted as decoder (it is not the code path html/template escapes with). Strings containing NUL are outside the alphabet (HTML cannot carry U+0000)."),
 "C07": dict(cat="exploration", tech="runtime monitor: encoding/json decode of the output (duplicate-key aware token pass) against the model, every separator placement and skipable assignment for small tables, negative configurations",
   text="err==nil output must decode to one object per non-separator row with exactly the expected key set and compacted values; every listed misconfiguration must yield an error and Render must then return no text. Half of the cases are staged (same wrapper, other skipable settings at the earlier renders, explicit withdrawals).",
   note="encoding/json's decoder is trusted; header texts that are not valid UTF-8 are only checked for no-panic."),
 "C08": dict(cat="exploration", tech="runtime monitor: byte-wise GFM line/pipe splitter + entity decoding of the Markdown output against the model and the effective-alignment rule",
   text="Output must be header, delimiter and one line per non-separator row, each with NColumns+1 unescaped pipes; delimiter cells :?-{3,}:? per effective alignment; cells decode to the trimmed text; no raw | LF < > & \" ' from content; header-less / column-less tables refused. Half of the cases are staged (same wrapper, other alignments at the earlier renders, explicit withdrawals; a fresh wrapper must agree with the reused one).",
   note="html.UnescapeString trusted; CR excluded (documented non-goal)."),
 "C09": dict(cat="exploration", tech="runtime monitor: recover()-based panic guard and (text,err) check around every renderer and style, over bounded-exhaustive and random build sequences",
   text="All build sequences up to a bounded length over the building operations x item flavours are enumerated exhaustively and each resulting table is rendered by all five renderers and every registered decoration under a panic guard; longer random sequences in addition; registered decorations include one complete and seven partially filled application decorations; the order of the routes over the one table varies per case; a further phase renders the table through every direct route from inside a table-level add-time row callback, each time a row arrives while AddRow is still running.",
   note="Go's runtime checks are the sanitizer. Custom Table implementations that lie about NColumns are outside the statement."),
 "C10": dict(cat="exploration", tech="runtime monitor: byte-equality of outputs across creation paths x render routes x wrapper nestings",
   text="One history is replayed on a table from every creation path; outputs collected through package functions, wrapper methods, auto and nested wrappers must be byte-identical to the reference route, and Render must equal what RenderTo writes; six application-registered decorations are targets and creation paths too; right after any render that returned an error a canary table is rendered through Render and RenderTo in all five formats.",
   note="Equality only; which bytes are right is C03-C08's business."),
 "C11": dict(cat="exploration", tech="runtime monitor: conservation / exactly-once checker over unique error ids raised along generated histories; container operations bounded-exhaustive",
   text="Every error the harness raises has a unique identity; after every step the table's list must contain each id raised by a source belonging to the table exactly once, per-source order preserved, no nil entries, nil-or-non-empty; the caller overwrites its list after AddErrorList, a second container / summary table is fed from Errors(), rows come from all three constructors.",
   note="Relative order of errors from different sources is not asserted."),
 "C12": dict(cat="exploration", tech="runtime monitor: per-step comparison with a map[owner]map[key]value reference model over all owners incl. by-value cell copies and stale column handles; growth monitors (%#v dump and heap)",
   text="After every step every (owner,key) pair seen so far is read back and compared with the reference maps; repeated sets must not change the %#v dump nor grow the heap.",
   note="Non-comparable and nil keys are documented panics and not generated."),
 "C13": dict(cat="exploration", tech="runtime monitor: recording callbacks + offline trace checker against the documented nesting grammar; all 48 (owner,time,target) registrations exhaustively, pairs in thorough",
   text="Recording callbacks log every invocation with target identity; the log is compared with the trace generated from the table shape by the documented nesting order; liveness of the delivered object is checked by reading back a property set inside the callback; a further phase adds cell values that already carry callbacks at several places and copies live cells by value (registrations must fire on their own cell and on by-value copies of carriers only).",
   note="Events the statement does not list are only checked for at-most-once."),
 "C14": dict(cat="exploration", tech="runtime monitor: output equality per format across render sequences + observable-state snapshot diff after every render",
   text="Random render sequences over all formats and decorations, reused and fresh wrappers mixed; k-th output must equal the first of its format; snapshot of counts, texts, locations, user properties and errors must not change; every (owner,key) over a fixed key set incl. alignment and skipable is probed whether set or not; some items are mutated without Update before the renders.",
   note="The library's private measurement keys are not user-set and not part of the snapshot."),
 "C15": dict(cat="fault_enumeration", tech="fault injection: scripted io.Writer failing at every Write index k x {from k on, only at k, partial write + error at k}, exhaustive per table; second channel: real write(2) failing with ENOSPC under strace",
   text="For each table and renderer the fault-free run counts N writes; then every k in 1..N x 3 modes is injected: RenderTo must return non-nil without panicking and the accepted bytes must be a prefix of the fault-free output. Exhaustive per table, tables chosen to reach every write site; each injection is made through a plain io.Writer and through a writer that also implements io.StringWriter.",
   note="A writer returning a short count with nil error breaks the io.Writer contract and is not injected."),
 "C16": dict(cat="exploration", tech="Go race detector over a barrier-released many-goroutine build+render workload, plus equality of every concurrent output with the sequential output",
   text="No race report and no output difference in N executions at several GOMAXPROCS values; says nothing about interleavings that did not happen (evidence reports distinct interleaving signatures). Tables are built inside the goroutines; the sequential reference is computed after the batch.",
   note="Sharing one table or wrapper between goroutines is out of scope."),
 "C17": dict(cat="exploration", tech="Go race detector + porcupine linearizability check of recorded Register/Named/List histories against a sequential map model; fail-closed sequence monitor",
   text="Recorded client-boundary histories with unique registered values are checked against a sequential map model (porcupine); race detector on; renders by name are reads of the model; unknown names must fail closed, also after earlier known names on the same table. No report in N executions / histories.",
   note="A checker timeout is inconclusive, never a violation."),
 "C18": dict(cat="exploration", tech="runtime monitor: metamorphic relations between independently computed library metrics over generated and bounded-exhaustive strings and the cells built from them",
   text="join(Lines)=s up to one trailing LF; LongestLineX = max per line; runes<=bytes; cells<=2*runes; non-overriding cell Height=len(Lines), width=LongestLineCells. Held on K strings x 6 LF variants x 6 cell kinds, plus one long-lived cell driven through all variants with Update.",
   note="The relations tie library results to each other; absolute widths are not asserted."),
 "C19": dict(cat="exploration", tech="runtime monitor: full style battery (list, New+render each listed name, case variants, trailing sections, texttable. prefix, unknown names) re-run after every step of a registration history",
   text="After each registration the listing must be sorted and complete and every listed name must render; all case variants of sub-package names (exhaustive) and trailing sections select the same renderer; texttable.NAME equals NAME; unknown names fail; names are used as style strings before they are registered; listings handed out are scribbled over.",
   note="The registry is global and grow-only; each history uses a fresh namespace."),
}

def main():
    props = [json.loads(l) for l in open(os.path.join(HERE, "properties.jsonl"))]
    checks, na = [], []
    for p in props:
        pid = p["id"]
        if pid in BUILT:
            c = CHECKS[pid]
            checks.append({
                "property_id": pid,
                "quick_cmd": "./run.sh %s quick" % pid,
                "thorough_cmd": "./run.sh %s thorough" % pid,
                "evidence_file": "/verif/evidence/%s.json" % pid,
                "replay_cmd_template": "./run.sh %s quick --replay {path}" % pid,
                "engine": "vcheck",
                "level_claimed": {"category": c["cat"], "text": c["text"], "design_ref": "DESIGN.md §4 %s" % pid},
                "level_note": c["note"],
                "technique": c["tech"],
            })
        else:
            na.append({"property_id": pid, "reason": "check not built yet in this tree (planned: %s); not claimed until its monitor exists and has been validated" % CHECKS[pid]["tech"]})
    m = {
        "version": 1,
        "setup_cmd": "./setup.sh",
        "hooks": {
            "guard": "verif",
            "enable": "the harness is always built with `go build -tags verif` (run.sh); no hook is currently needed, so the tag guards nothing in /repo",
            "baseline_off_cmd": "cd /repo && GOFLAGS=-mod=mod GOPROXY=off GOSUMDB=off GOTOOLCHAIN=local go test -json -vet=off -count=1 -timeout 25m ./...",
            "source_commits": [],
            "add_only": True,
        },
        "engines": [{
            "name": "vcheck", "path": "/verif/harness",
            "serves_properties": [c["property_id"] for c in checks],
            "kind_free_text": "Go harness importing the working tree of /repo (replace directive), rebuilt on every run; child processes per shard under panic guards; monitors = reference models, strict output parsers, recording callbacks, scripted writers, race detector, porcupine",
        }],
        "checks": checks,
        "not_applicable": na,
        "notes": "Family: runtime monitoring and sanitizers. Verdicts are three-valued (exit 0 held / 1 VIOLATION / 2 INCONCLUSIVE). 21 genuine defects of the tree as given were repaired by separate unguarded fix: commits in /repo (c1f3764..3184c11) and are listed as fixed: in KNOWN_FINDINGS.txt; there are no known: entries. No hooks were needed. selftest/ (mutants) and seeded/ (299 independently written changes from 17 rounds) document which checks catch which changes. See DESIGN.md.",
    }
    json.dump(m, open(os.path.join(HERE, "MANIFEST.json"), "w"), indent=1, ensure_ascii=False)
    print("MANIFEST.json: %d checks, %d not_applicable" % (len(checks), len(na)))

main()
