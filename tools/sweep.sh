#!/bin/bash
# tools/sweep.sh [seeds...]: every check in the quick tier at each of the given VERIF_SEED values (default 1..5),
# with evidence and replays diverted to a scratch root so that the committed evidence is not overwritten.
# Prints one line per (check, seed) that is not a clean HELD, and a summary.
HERE="$(cd "$(dirname "${BASH_SOURCE[0]}")/.." && pwd)"
SEEDS="${*:-1 2 3 4 5}"
ROOT="$(mktemp -d /tmp/vsweep.XXXXXX)"; cp "$HERE/KNOWN_FINDINGS.txt" "$ROOT/"
bad=0; n=0
for s in $SEEDS; do
  for p in C01 C02 C03 C04 C05 C06 C07 C08 C09 C10 C11 C12 C13 C14 C15 C16 C17 C18 C19; do
    VERIF_ROOT="$ROOT" VERIF_SEED=$s "$HERE/run.sh" $p quick > "$ROOT/$p-$s.log" 2>&1; e=$?
    n=$((n+1))
    if [ $e -ne 0 ] || grep -q '^VIOLATION\|^KNOWN-FINDING\|^INCONCLUSIVE' "$ROOT/$p-$s.log"; then
      bad=$((bad+1)); echo "$p seed=$s exit=$e: $(grep -m1 'violation key\|INCONCLUSIVE' "$ROOT/$p-$s.log" | cut -c1-300)"
      mkdir -p "$HERE/.build/sweep-failures"; cp "$ROOT/$p-$s.log" "$HERE/.build/sweep-failures/"; cp "$ROOT"/replays/$p-* "$HERE/.build/sweep-failures/" 2>/dev/null
    fi
  done
done
echo "sweep: $n runs, $bad not clean"
rm -rf "$ROOT"
